"""C14 -- datetime-filter arguments resolve to the documented instant.

Seam: the simulated program-start instant (plan `now=`, incl. fractional seconds, leap days, year
edges) and --tz-offset. Generated: the documented grammar - every absolute pattern x zone spelling
x fraction length, '+epoch', relative forms with every subset and order of w/d/h/m/s, multi-digit
counts, both signs, with and without '@' - and near-miss strings outside it.

Oracle (independent resolver): the two `Datetime filter` lines of --summary, the exit status,
"nothing on stdout when rejected", and - for sub-second bounds the summary does not show - the set
of messages selected from a probe log whose messages sit 1 ms around the resolved bounds. For
"from now" forms both `now` and `now` truncated to the second are accepted (the help text does
not say which).
"""
import re

import core
import engine
import merge
import mergecheck
import world
import c19
from engine import Violation, CaseResult

PROP = "C14"
NS = 1_000_000_000

ZONES_NUM = ((0, "+00:00"), (540, "+09:00"), (540, "+0900"), (540, "+09"), (-480, "-08:00"), (-480, "-0800"), (-480, "-08"),
             (330, "+05:30"), (330, "+0530"), (-210, "-03:30"), (840, "+1400"), (-720, "-12"))
ZONES_NAMED = ((570, "ACST"), (60, "CET"), (-300, "EST"), (540, "JST"), (780, "NZDT"), (-480, "PST"), (0, "UTC"), (600, "VLAT"),
               (60, "WAT"), (0, "Z"), (540, "jst"))
ZONES_AMBIGUOUS = ("ACT", "AMT", "AST", "BST", "CDT", "CST", "ECT", "GST", "IST", "LHST", "MST", "SST", "ist", "cst")
TZ_OFFSET_ARGS = ((0, "+00:00"), (330, "+05:30"), (-480, "-0800"), (540, "+09"), (-300, "EST"), (60, "CET"), (-690, "-11:30"))


def days_from_civil(y, m, d):
    y -= m <= 2
    era = (y if y >= 0 else y - 399) // 400
    yoe = y - era * 400
    doy = (153 * (m + (-3 if m > 2 else 9)) + 2) // 5 + d - 1
    doe = yoe * 365 + yoe // 4 - yoe // 100 + doy
    return era * 146097 + doe - 719468


def civil_to_ns(y, mo, d, h, mi, s, frac_ns, off_min):
    return ((days_from_civil(y, mo, d) * 86400 + h * 3600 + mi * 60 + s) - off_min * 60) * NS + frac_ns


def gen_absolute(rng, tzo_min, ambiguous=False):
    """-> (string, instant_ns) for one documented absolute form; ambiguous: the same forms (any date, time, fraction; the
    name glued to the time or after a blank) carrying a zone name that stands for several zones -- to be rejected"""
    y = rng.choice((1971, 1999, 2000, 2004, 2024, 2038, 2099, rng.randint(1971, 2098)))
    mo = rng.randint(1, 12)
    dmax = (31, 29 if (y % 4 == 0 and (y % 100 != 0 or y % 400 == 0)) else 28, 31, 30, 31, 30, 31, 31, 30, 31, 30, 31)[mo - 1]
    d = rng.choice((1, dmax, rng.randint(1, dmax)))
    form = rng.choice(("date_compact", "date_dash", "date_slash", "compact", "dash_space", "dash_T", "slash", "epoch"))
    if ambiguous:
        form = rng.choice(("compact", "dash_space", "dash_T", "dash_T", "slash"))
    if form.startswith("date_"):
        s = {"date_compact": "%04d%02d%02d", "date_dash": "%04d-%02d-%02d", "date_slash": "%04d/%02d/%02d"}[form] % (y, mo, d)
        return s, civil_to_ns(y, mo, d, 0, 0, 0, 0, tzo_min)     # a bare date means 00:00:00 in the --tz-offset zone
    if form == "epoch":
        secs = rng.choice((0, 1, 946684800, 2**31 - 1, 2**31, 4102444799, rng.randint(0, 4102444799)))
        return "+%d" % secs, secs * NS
    h, mi, sec = rng.choice((0, 23, rng.randint(0, 23))), rng.choice((0, 59, rng.randint(0, 59))), rng.choice((0, 59, rng.randint(0, 59)))
    fd = rng.choice((0, 0, 3, 6))
    if fd == 3:
        ms = rng.choice((0, 1, 999, rng.randint(0, 999)))
        frac_s, frac_ns = ".%03d" % ms, ms * 1_000_000
    elif fd == 6:
        us = rng.choice((0, 1, 999999, rng.randint(0, 999999)))
        frac_s, frac_ns = ".%06d" % us, us * 1000
    else:
        frac_s, frac_ns = "", 0
    zk = rng.choice(("none", "num", "num", "named"))
    if ambiguous:
        zk = "ambiguous"
        off, zs = 0, rng.choice(ZONES_AMBIGUOUS)
    elif zk == "none":
        off, zs = tzo_min, ""
    elif zk == "num":
        off, zs = rng.choice(ZONES_NUM)
    else:
        off, zs = rng.choice(ZONES_NAMED)
    if form == "compact":
        s = "%04d%02d%02dT%02d%02d%02d%s%s" % (y, mo, d, h, mi, sec, frac_s, zs)
    elif form == "dash_space":
        s = "%04d-%02d-%02d %02d:%02d:%02d%s%s" % (y, mo, d, h, mi, sec, frac_s, (" " + zs) if zs else "")
    elif form == "dash_T":
        sp = " " if (zs and rng.random() < 0.5) else ""
        s = "%04d-%02d-%02dT%02d:%02d:%02d%s%s%s" % (y, mo, d, h, mi, sec, frac_s, sp, zs)
    else:
        s = "%04d/%02d/%02d %02d:%02d:%02d%s%s" % (y, mo, d, h, mi, sec, frac_s, (" " + zs) if zs else "")
    return s, civil_to_ns(y, mo, d, h, mi, sec, frac_ns, off)


UNIT_NS = {"w": 7 * 86400 * NS, "d": 86400 * NS, "h": 3600 * NS, "m": 60 * NS, "s": NS}


def gen_relative(rng, at):
    units = rng.sample("wdhms", rng.randint(1, 5))
    if rng.random() < 0.5:
        units = [u for u in "wdhms" if u in units]      # documented order; otherwise any order
    sign = rng.choice("+-")
    total = 0
    parts = []
    for u in units:
        n = rng.choice((0, 1, 2, 7, 10, 36, 100, rng.randint(0, 500)))
        if u == "w":
            n = min(n, 60)
        parts.append("%d%s" % (n, u))
        total += n * UNIT_NS[u]
    return ("@" if at else "") + sign + "".join(parts), (total if sign == "+" else -total)


NEAR_MISSES = ("", "yesterday", "2020-13-01", "2020-02-30", "20200230T000000", "2020-01-01T25:00:00", "12:00:00", "1h", "+h", "-1x",
               "+1.5h", "@1h", "2020-01-01 00:00:00 XYZT", "2020-01-01T00:00:00.1", "2020-01-01T00:00:00.12345", "+-", "++1h",
               "2020/01/01T00:00:00", "Jan 1 2020", "+", "@", "@+", "-1hh", "+1hx", "x+1h", "-1h junk")


def resolve(a_s, b_s, tzo_min, now_ns, table):
    """independent resolver. table maps the generated strings to ('abs', ns) | ('rel', delta, at) | ('bad',).
    -> ('ok', A candidates, B candidates) | ('reject', why)"""
    def kind(s):
        return table.get(s, ("bad",)) if s is not None else None
    ka, kb = kind(a_s), kind(b_s)
    for k in (ka, kb):
        if k is not None and k[0] == "bad":
            return ("reject", "unparseable value")
    a_at = ka is not None and ka[0] == "rel" and ka[2]
    b_at = kb is not None and kb[0] == "rel" and kb[2]
    if a_at and b_at:
        return ("reject", "both bounds relative to the other")
    nows = sorted(set((now_ns, now_ns - now_ns % NS)))

    def base(k):
        if k is None:
            return [None]
        if k[0] == "abs":
            return [k[1]]
        if not k[2]:
            return [n + k[1] for n in nows]
        return None
    if a_at:
        B = base(kb)
        if kb is None:
            return ("reject", "@ without the other bound")
        A = [x + ka[1] for x in B]
    elif b_at:
        A = base(ka)
        if ka is None:
            return ("reject", "@ without the other bound")
        B = [x + kb[1] for x in A]
    else:
        A, B = base(ka), base(kb)
    pairs = []
    if a_at or b_at:
        pairs = list(zip(A, B))
    else:
        pairs = [(x, y) for x in A for y in B]
    ok = [(x, y) for (x, y) in pairs if x is None or y is None or x <= y]
    if not ok:
        return ("reject", "after > before")
    if len(ok) != len(pairs):
        return ("either", ok)      # accepted or rejected depending on the (unspecified) truncation of now
    return ("ok", ok)


def probe_log(bounds):
    """messages 1 ms around each candidate bound (deduplicated, chronological)"""
    ts = set()
    for x in bounds:
        if x is None:
            continue
        base = x - x % 1_000_000
        for d in (-2, -1, 0, 1, 2, 3):
            t = base + d * 1_000_000
            if 86400 * NS < t < 4102444800 * NS:
                ts.add(t)
    if not ts:
        ts = {946684800 * NS, 946684801 * NS}
    ts = sorted(ts)
    out = bytearray()
    msgs = []
    for i, t in enumerate(ts):
        d = world.stamp(t, 0, 1, 3) + b" P" + world.tag26(i) + b"\n"
        out += d
        msgs.append(world.Msg(t, bytes(d), b""))
    return bytes(out), msgs


def gen_case(rng):
    tzo_min, tzo_s = rng.choice(TZ_OFFSET_ARGS)
    now_s = rng.choice((946684800, 951782400 + 86399, 1709251199, 1735689599, 4070908800, rng.randint(86400 * 400, 4070908800)))
    now = (now_s, rng.choice((0, 1, 999_999_999, rng.randrange(NS))))
    table = {}

    def one(allow_at):
        r = rng.random()
        if r < 0.45:
            s, ns = gen_absolute(rng, tzo_min)
            table[s] = ("abs", ns)
            return s
        if r < 0.8:
            at = allow_at and rng.random() < 0.5
            s, delta = gen_relative(rng, at)
            table[s] = ("rel", delta, at)
            return s
        if r < 0.9:
            if rng.random() < 0.3:
                s = "2020-01-01 00:00:00 " + rng.choice(ZONES_AMBIGUOUS)
            else:
                s, _ = gen_absolute(rng, tzo_min, ambiguous=True)
            table[s] = ("bad",)
            return s
        s = rng.choice(NEAR_MISSES)
        table[s] = ("bad",)
        return s
    shape = rng.choice(("a", "b", "ab", "ab", "ab"))
    a_s = one(True) if "a" in shape else None
    b_s = one(True) if "b" in shape else None
    if a_s is not None and b_s is not None and rng.random() < 0.35 and table[a_s][0] == "abs":
        # the documented equivalence: -a X -b @+D  ==  -a X -b X+D
        s, delta = gen_relative(rng, True)
        if delta >= 0:
            b_s = s
            table[s] = ("rel", delta, True)
    return tzo_min, tzo_s, now, a_s, b_s, table


def run_case(seed, i, tier):
    rng = core.rng_for(seed, PROP, i)
    tzo_min, tzo_s, now, a_s, b_s, table = gen_case(rng)
    now_ns = now[0] * NS + now[1]
    verdict = resolve(a_s, b_s, tzo_min, now_ns, table)
    cands = verdict[1] if verdict[0] in ("ok", "either") else []
    bounds = [x for pr in cands for x in pr]
    content, msgs = probe_log(bounds)
    src = merge.Source("probe.log", "text", msgs, content, content)
    opts = ["--color", "never", "--tz-offset=" + tzo_s, "--summary"]
    if a_s is not None:
        opts.append("--dt-after=" + a_s)
    if b_s is not None:
        opts.append("--dt-before=" + b_s)
    plan = core.Plan(seed=rng.getrandbits(62), policy="random", now=now, budget=2_000_000)
    plan.hashseed = rng.getrandbits(32)
    scn = merge.scenario_for([src], opts, rng.choice(("UTC", "XYZ5", "<+0545>-5:45")))
    if rng.random() < 0.2:
        # the probe log named through '-', by a producer that takes a while: relative forms count from program start, not
        # from whenever the list has arrived (the simulated clock is that much later once standard input has been read)
        scn.argv = [a_ for a_ in scn.argv if a_ != src.path] + ["-"]
        scn.stdin = (src.path + "\n").encode()
        plan.stdin_delay = rng.choice((7, 90, 3600, 86400))
    res = core.execute(scn, plan)
    cr = CaseResult()
    cr.runs = 1
    cr.steps = res.trace.steps
    cr.steps_max = res.trace.steps
    cr.policies["random"] += 1
    cr.faults["simulated_clock"] += 1
    if getattr(plan, "stdin_delay", None):
        cr.faults["path_list_on_stdin_arrives_late"] += 1
    cr.clock_span = (now[0], now[0])
    cr.probes["verdict_" + verdict[0]] += 1
    for s in (a_s, b_s):
        if s is not None:
            k = table.get(s, ("bad",))
            cr.probes["form_" + (k[0] if k[0] != "rel" else ("rel_at" if k[2] else "rel_now"))] += 1
    cr.nontrivial_keys.append(core.derive(0, "%s|%s|%s|%s" % (a_s, b_s, tzo_s, now)))
    cr.decision_hashes.append(res.trace.decision_hash())
    cr.arrival_hashes.append(res.trace.arrival_hash())
    vs = evaluate(res, verdict, msgs)
    for (cls, detail) in vs:
        rp = {"scenario": scn.to_json(), "plan": plan.to_json(), "class": cls, "a": a_s, "b": b_s, "tzo_min": tzo_min,
              "now_ns": now_ns, "table": {k: list(v) for k, v in table.items()}}
        cr.violations.append(Violation(cls, "-a %r -b %r --tz-offset %s now=%d.%09d: %s" % (a_s, b_s, tzo_s, now[0], now[1], detail), rp))
    cr.sample = {"argv": scn.argv, "now": "%d.%09d" % now, "model": [verdict[0], str(verdict[1])[:200]]}
    return cr


def evaluate(res, verdict, msgs):
    v = []
    if res.timed_out or res.rc in (95, 96, 98, 99) or res.rc is None or res.rc < 0 or b"panicked at" in res.stderr:
        return [("crash_or_hang", "exit status %s; stderr tail %r" % (res.rc, res.stderr[-300:]))]
    accepted = b"Program Summary" in res.stderr
    if verdict[0] == "reject":
        if accepted or res.rc == 0:
            v.append(("rejectable_value_accepted", "model rejects (%s) but s4 ran (exit %s); filter lines: %s" % (
                verdict[1], res.rc, filter_lines(res))))
        elif res.stdout:
            v.append(("output_before_rejection", "%d bytes on stdout before the rejection" % len(res.stdout)))
        return v
    if not accepted:
        if verdict[0] == "either":
            return v
        return [("documented_value_rejected", "exit %s, stderr %r" % (res.rc, res.stderr[-300:]))]
    sm = c19.parse_summary(res.stderr)
    got_a = c19.utc_paren(sm["total"].get("Datetime filter -a"))
    got_b = c19.utc_paren(sm["total"].get("Datetime filter -b"))
    matches = []
    for (x, y) in verdict[1]:
        wa = c19.fmt_utc(x) if x is not None else None
        wb = c19.fmt_utc(y) if y is not None else None
        if (got_a, got_b) == (wa, wb):
            matches.append((x, y))
    if not matches:
        return [("resolved_instant_differs", "summary shows -a %r -b %r; model candidates %s" % (
            got_a, got_b, [(c19.fmt_utc(x) if x is not None else None, c19.fmt_utc(y) if y is not None else None) for (x, y) in verdict[1]]))]
    # sub-second precision through the probe log
    ok = False
    wants = []
    for (x, y) in matches:
        sel = b"".join(m.data for m in msgs if (x is None or m.instant >= x) and (y is None or m.instant <= y))
        wants.append(sel)
        if res.stdout == sel:
            ok = True
    if not ok:
        v.append(("probe_selection_differs", "messages selected from the probe log differ from every candidate: %s" % (
            mergecheck.show_diff(res.stdout, wants[0]))))
    return v


def filter_lines(res):
    sm = c19.parse_summary(res.stderr)
    if not sm:
        return None
    return (sm["total"].get("Datetime filter -a"), sm["total"].get("Datetime filter -b"))


def classes_of(rp):
    scn = core.Scenario.from_json(rp["scenario"])
    plan = core.Plan.from_json(rp["plan"])
    plan.now = tuple(plan.now)
    res = core.execute(scn, plan)
    table = {k: tuple(v) for k, v in rp["table"].items()}
    verdict = resolve(rp["a"], rp["b"], rp["tzo_min"], rp["now_ns"], table)
    cands = verdict[1] if verdict[0] in ("ok", "either") else []
    _, msgs = probe_log([x for pr in cands for x in pr])
    return set(c for (c, _) in evaluate(res, verdict, msgs))


def replay(rp):
    cl = classes_of(rp)
    return (rp.get("class") in cl) if rp.get("class") else bool(cl)


RULE = ("one case = (-a, -b, --tz-offset, simulated program-start instant): bounds drawn from the documented absolute "
        "forms (8 layouts x fraction none/3/6 x zone none/numeric in 3 spellings/named), '+epoch', relative forms (every "
        "subset and order of w d h m s, multi-digit counts, both signs, with/without '@'), ambiguous zone names and "
        "near-miss strings; --summary run on a probe log with messages 1 ms around the model's bounds; non-trivial = "
        "every run; distinct = (arguments, zone, clock)")
ASSUMPTIONS = ["for 'from now' forms both now and now truncated to the second are accepted",
               "named zones are drawn from a fixed list of unambiguous / ambiguous names of the project's table"]


def main(tier):
    n = 4000 if tier == "quick" else 300000
    cap = 300 if tier == "quick" else 1500
    return engine.run_check(PROP, "c14", tier, n, cap, "exploration", RULE, ASSUMPTIONS)
