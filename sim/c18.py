"""C18 -- no temporary files are left behind, even on Ctrl-C; an interrupt ends the run promptly.

Crash-point enumeration. Per case: 1..3 compressed/archived journal or evtx sources (shipped files,
re-encoded by the driver in every container, optionally corrupted so extraction fails half-way),
optionally next to a text source, private TMPDIR. A base run (no signal) under a seeded schedule gives
the step count N; then SIGINT is delivered at step k for a stratified sample of k (quick) or for
every k in 0..N (thorough), some runs with a second SIGINT. Process exit is itself a crash point for
the workers (parked threads die with the process; destructors do not run).

Oracle: after the process has exited TMPDIR holds no `s4-*` entry; after the (last) delivery the
process exits within 200 + 50*threads round-robin steps; no deadlock; no crash.
"""
import json

import core
import engine
import fixtures
import merge
import mergecheck
import tracecheck
import world
from engine import Violation, CaseResult

PROP = "C18"

_ENC_CACHE = {}


def encode_fixture(name, container, variant):
    key = (name, container, variant)
    if key in _ENC_CACHE:
        return _ENC_CACHE[key]
    data = fixtures.load(name)
    suffix = ".journal" if fixtures.kind_of(name) == "journal" else ".evtx"
    if container == "gz":
        out = world.to_gz(data, level=(1, 6)[variant % 2], mtime=(0, 1600000000)[variant % 2], name=("", "x" + suffix)[variant % 2])
    elif container == "bz2":
        out = world.to_bz2(data, (1, 9)[variant % 2])
    elif container == "xz":
        out = world.to_xz(data, (0, 6)[variant % 2])
    elif container == "lz4":
        out = world.to_lz4(data, None, (4, 6)[variant % 2], None, True, variant % 2 == 0)
    elif container == "tar":
        members = [("m" + suffix, data, 1600000000)]
        if variant % 2:
            members.insert(0, ("readme.nfo", b"not a log\n", 1600000000))
        out = world.to_tar(members, ("ustar", "gnu", "pax")[variant % 3])
    else:
        raise ValueError(container)
    _ENC_CACHE[key] = out
    return out


def gen_case(rng):
    if rng.random() < 0.15:
        # no temp files at all: the interrupt must still end the run promptly and without deadlock while
        # workers are blocked on full channels and the coordinator holds / waits for the channel-map lock
        files, descr = [], []
        for k in range(rng.randint(1, 4)):
            p = world.TextLogParams(n_msgs=rng.choice((3, 20, 60)), src_letter=bytes([65 + k]), cont_p=0.1)
            content, msgs, _ = world.gen_text_log(rng, p)
            files.append(core.FileSpec("t%d.log" % k, content, 1600000000))
            descr.append({"path": "t%d.log" % k, "fixture": "text", "msgs": len(msgs)})
        return core.Scenario(files, ["--color", "never"] + [f.path for f in files], None, "UTC"), descr
    n = rng.choice((1, 1, 2, 2, 3))
    files = []
    descr = []
    for i in range(n):
        name = rng.choice(("noevents", "noevents", "noevents", "pnp", "pnp", "u22x3", "genj", "genj", "genj"))
        cont = rng.choice(("gz", "bz2", "xz", "lz4", "tar"))
        if name == "u22x3" and cont == "bz2":
            cont = "gz"   # 8 MiB through the pure-Rust bzip2 decoder costs seconds; covered by the evtx sources
        variant = rng.randrange(6)
        if name == "genj":
            # a generated journal (sim/journalgen.py, read back through journalctl): a few KiB .. ~100 KiB, i.e. from less
            # than one extraction chunk to several
            import c09
            plain, _, _ = c09.gen_journal(rng)
            suffix = ".journal"
            if cont == "tar":
                data = world.to_tar([(world.member_path(rng, "m" + suffix), plain, 1600000000)], ("ustar", "gnu", "pax")[variant % 3])
            else:
                data, _ = world.random_container(rng, cont, plain, 1600000000, "m" + suffix)
            plain_len = len(plain)
        else:
            data = encode_fixture(name, cont, variant)
            suffix = ".journal" if fixtures.kind_of(name) == "journal" else ".evtx"
            plain_len = len(fixtures.load(name))
        corrupt = None
        r = rng.random()
        if r < 0.25:
            cut = rng.randrange(max(1, len(data) // 8), len(data))
            data = data[:cut]
            corrupt = "truncated@%d" % cut
        elif r < 0.40:
            # a well-formed container around damaged content: extraction succeeds, then the journal / event-log reader
            # rejects (or half-reads) the extracted copy -- the copy must be removed all the same
            plain = fixtures.load(name) if name != "genj" else plain
            how = rng.choice(("cut", "cut", "zero_header", "garbage"))
            if how == "cut":
                k = rng.choice((0, 1, 100, 4096, len(plain) // 2, max(0, len(plain) - 1)))
                bad = plain[:k]
            elif how == "zero_header":
                bad = bytes(rng.choice((8, 64, 4096))) + plain[rng.choice((8, 64, 4096)):]
            else:
                bad = bytes(rng.getrandbits(8) for _ in range(rng.choice((10, 5000))))
            if len(bad) > 2_000_000:
                bad = bad[:2_000_000]
            if cont == "tar":
                data = world.to_tar([(world.member_path(rng, "m" + suffix), bad, 1600000000)], ("ustar", "gnu", "pax")[variant % 3])
            else:
                data, _ = world.random_container(rng, cont, bad, 1600000000, "m" + suffix)
            plain_len = len(bad)
            corrupt = "content_%s(%d bytes)" % (how, len(bad))
        path = "%d_%s%s.%s" % (i, name, suffix, cont) if cont != "tar" else "%d_%s.tar" % (i, name)
        files.append(core.FileSpec(path, data, 1600000000 + i))
        descr.append({"path": path, "fixture": name, "container": cont, "variant": variant, "corrupt": corrupt,
                      "bytes": len(data), "plain_len": plain_len})
    if rng.random() < 0.4:
        p = world.TextLogParams(n_msgs=rng.randint(1, 8), src_letter=b"T", cont_p=0.2)
        content, msgs, _ = world.gen_text_log(rng, p)
        files.insert(rng.randrange(len(files) + 1), core.FileSpec("t.log", content, 1600000000))
        descr.append({"path": "t.log", "fixture": "text", "msgs": len(msgs)})
    argv = ["--color", "never"] + [f.path for f in files]
    if rng.random() < 0.3:
        argv = ["--color", "never", "--summary"] + [f.path for f in files]
    return core.Scenario(files, argv, None, "UTC"), descr


def leaked(res):
    return [n for n in res.tmp_left if n.startswith("s4-")]


def classify_leak(res):
    """Signature of a leak = where in the life cycle the file was when the process ended.
    Returns (class, detail)."""
    tr = res.trace
    names = leaked(res)
    sig = bool(tr.signals_delivered)
    parts = []
    cls = set()
    for nm in names:
        ev = [(st, kind, tid) for (st, kind, f, tid) in tr.ntf if f == nm]
        kinds = [k for (_, k, _) in ev]
        owner = ev[0][2] if ev else -1
        owner_finished = any(t == owner for (_, t) in tr.finished)
        reg_step = next((st for (st, k, _) in ev if k == "register"), None)
        if tr.default_action_at is not None:
            c = "leak_sigint_met_no_handler"
        elif not sig:
            c = "leak_normal_exit_owner_%s" % ("finished" if owner_finished else "alive")
        else:
            first_sig = tr.signals_delivered[0]
            handler_done = len(tr.handler_returned) >= len(tr.signals_delivered)
            if reg_step is None:
                c = "leak_sigint_file_created_not_registered"
            elif not handler_done:
                c = "leak_sigint_exit_while_handler_running"
            elif reg_step > (tr.handler_returned[-1] if tr.handler_returned else first_sig):
                c = "leak_sigint_file_registered_after_handler_ran"
            elif reg_step > first_sig:
                c = "leak_sigint_file_registered_while_handler_ran"
            else:
                c = "leak_sigint_registered_before_handler_but_not_removed"
        cls.add(c)
        parts.append("%s: events=%s owner=T%d owner_finished=%s" % (nm[:6] + "*" + nm[-8:], kinds[-4:], owner, owner_finished))
    return sorted(cls), "; ".join(parts)


def evaluate(res):
    v = []
    tr = res.trace
    if res.timed_out:
        return [("wall_timeout", "run did not end within the wall-clock cap (twice)")]
    if res.rc == 99:
        return [("deadlock", "no enabled thread: %s" % (tr.z,))]
    if res.rc == 98:
        return [("livelock", "step budget exceeded: %s" % (tr.z,))]
    if res.rc == 96:
        return [("no_prompt_exit_after_sigint", "%s" % (tr.z,))]
    if res.rc == 95:
        raise RuntimeError("harness error reported by s4_verif_rt: %r" % res.stderr[-500:])
    if res.crashed() or b"panicked at" in res.stderr:
        return [("crash", "exit status %s; stderr tail: %r" % (res.rc, res.stderr[-600:]))]
    if leaked(res):
        cl, detail = classify_leak(res)
        for c in cl:
            v.append((c, "TMPDIR after exit: %s -- %s" % (leaked(res), detail)))
    return v


KNOWN_SIGNATURES = {}   # class -> known finding id (filled from known_findings.json)


def _load_known():
    for kf in engine.load_known(PROP):
        if kf["status"] == "open":
            for c in kf.get("signature", {}).get("classes", []):
                KNOWN_SIGNATURES[c] = kf["id"]


def run_with(scn, plan):
    res = core.execute(scn, plan)
    return res


def strata(tr, rng, quick):
    """steps at which to deliver SIGINT, chosen from life-cycle positions of the base run"""
    n = tr.steps
    if not quick:
        return list(range(0, n + 1))
    picks = set()
    reg = [st for (st, k, _, _) in tr.ntf]
    for st in reg:
        picks.update((st - 1, st, st + 1))
    # sample within extraction chunk runs
    chunk_steps = [st for (st, tid, op, _, _) in tr.sched if op == "pt:ntf_chunk"]
    if chunk_steps:
        for _ in range(3):
            picks.add(rng.choice(chunk_steps))
    for (st, _, _, _, _) in tr.recv[:2]:
        picks.add(st)
    if tr.prints:
        picks.add(tr.prints[0][0])
        picks.add(tr.prints[-1][0] + 1)
    if tr.loop_exit:
        picks.add(tr.loop_exit[0])
    picks.update((0, 1, n - 1, n - 2, n))
    # every step up to (and just past) the first temp-file creation: an interrupt that early meets workers that have not
    # created their files yet and may do so while main is already on its way out
    created = [st for (st, k, _, _) in tr.ntf if k == "create"]
    early = list(range(0, min((min(created) + 3) if created else 12, 40)))
    for _ in range(4):
        picks.add(rng.randrange(0, n + 1))
    picks = sorted(p for p in picks if 0 <= p <= n)
    if len(picks) > 14:
        keep = set(rng.sample(picks, 14))
        picks = [p for p in picks if p in keep]
    return sorted(set(picks) | set(e for e in early if e <= n))


def run_case(seed, i, tier):
    if not KNOWN_SIGNATURES:
        _load_known()
    rng = core.rng_for(seed, PROP, i)
    quick = tier == "quick"
    scn, descr = gen_case(rng)
    nthreads = len(scn.files) + 2
    cr = CaseResult()
    prng = core.rng_for(seed, PROP, i, "plan")
    plan = core.random_plan(prng, len(scn.files), budget=400000)
    plan.post_budget = 200 + 50 * nthreads
    plan.hashseed = rng.getrandbits(32)

    def account(res, plan_used, kind):
        tr = res.trace
        cr.runs += 1
        cr.steps += tr.steps
        cr.steps_max = max(cr.steps_max, tr.steps)
        cr.policies[plan_used.policy.split(":")[0]] += 1
        cr.probes.update(tracecheck.probes(tr))
        cr.decision_hashes.append(tr.decision_hash())
        cr.arrival_hashes.append(tr.arrival_hash())
        if tr.default_action_at is not None:
            cr.faults["sigint_before_handler_registration(default_action)"] += 1
        if tr.signals_delivered:
            cr.faults["sigint_delivered"] += len(tr.signals_delivered)
            if len(tr.signals_delivered) > 1:
                cr.faults["sigint_repeated"] += 1
            # where did the first signal land relative to the temp-file life cycle
            s0 = tr.signals_delivered[0]
            created = [st for (st, k, _, _) in tr.ntf if k == "create"]
            registered = [st for (st, k, _, _) in tr.ntf if k == "register"]
            done = [st for (st, k, _, _) in tr.ntf if k == "done"]
            if any(c <= s0 for c in created) and sum(1 for r in registered if r <= s0) < sum(1 for c in created if c <= s0):
                cr.probes["signal_between_create_and_register"] += 1
            if any(r <= s0 for r in registered) and sum(1 for d in done if d <= s0) < sum(1 for r in registered if r <= s0):
                cr.probes["signal_during_extraction"] += 1
            if done and all(d <= s0 for d in done) and len(done) == len(created):
                cr.probes["signal_after_all_extractions"] += 1
            if not created or s0 < min(created):
                cr.probes["signal_before_any_tempfile"] += 1
            if tr.prints and tr.prints[0][0] <= s0:
                cr.probes["signal_while_printing"] += 1
        cr.faults["process_exit_with_live_threads"] += 1 if len(tr.finished) < len(tr.threads) else 0
        if any((d.get("corrupt") or "").startswith("truncated") for d in descr):
            cr.faults["extraction_fails_midway(truncated_stream)"] += 1
        if any((d.get("corrupt") or "").startswith("content_") for d in descr):
            cr.faults["extracted_copy_rejected_by_reader(damaged_content)"] += 1
        cr.nontrivial_keys.append(core.derive(0, "%s|%s|%s" % (scn.digest(), plan_used.signals, tr.decision_hash())))
        vs = evaluate(res)
        for (cls, detail) in vs:
            rp = {"scenario": scn.to_json(), "plan": plan_used.as_replay(tr).to_json(), "class": cls, "descr": descr}
            cr.violations.append(Violation(cls, "%s signals=%s policy=%s sources=%s: %s" % (
                kind, plan_used.signals, plan_used.policy, [d["path"] for d in descr], detail), rp,
                known=KNOWN_SIGNATURES.get(cls)))
        return vs

    base = run_with(scn, plan)
    account(base, plan, "base(no signal)")
    n = base.trace.steps
    if base.rc in (95, 96, 98, 99) or n == 0:
        return cr
    created0 = [st for (st, kk, _, _) in base.trace.ntf if kk == "create"]
    early_limit = min((min(created0) + 3) if created0 else 12, 40)
    for k in strata(base.trace, rng, quick):
        p2 = core.Plan.from_json(json.loads(json.dumps(plan.to_json())))
        p2.signals = [k]
        if rng.random() < 0.15:
            p2.signals = [k, k + rng.randint(1, 40)]
        res = run_with(scn, p2)
        account(res, p2, "sigint")
        if k < early_limit and created0:
            # the same early interrupt, but the drawn policy (not round-robin) keeps deciding afterwards, under another seed
            p3 = core.Plan.from_json(json.loads(json.dumps(plan.to_json())))
            p3.signals = [k]
            p3.post_rr = False
            p3.policy = "random"
            p3.stick = rng.choice((0, 300, 700))
            p3.seed = rng.getrandbits(62)
            p3.post_budget = 400000     # promptness is judged under round-robin only; a sticky random policy may starve main for long
            res = run_with(scn, p3)
            account(res, p3, "sigint(early, policy keeps deciding)")
    # ---- disk-full and broken-pipe faults (preload/seed.c): TMPDIR must be empty after these exits too ----
    tmp_total = sum(d["plain_len"] for d in descr if d.get("container"))
    io_runs = []
    if tmp_total:
        cand = {0, 1, tmp_total - 1, rng.randrange(tmp_total), rng.randrange(min(tmp_total, 70000)),
                65536 * rng.randint(1, max(1, tmp_total // 65536)) + rng.choice((-1, 0, 1))}
        cand = sorted(c for c in cand if 0 <= c < tmp_total)
        rng.shuffle(cand)
        for c in cand[:2 if quick else 6]:
            io_runs.append(("enospc=%d" % c, "tmpdir_full"))
    if tmp_total:
        src_total = sum(d["bytes"] for d in descr if d.get("container"))
        cand = {0, 1, rng.randrange(src_total), src_total - 1, src_total + rng.randrange(tmp_total), rng.randrange(min(src_total, 9000))}
        cand = sorted(c for c in cand if c >= 0)
        rng.shuffle(cand)
        for c in cand[:2 if quick else 5]:
            io_runs.append(("eio=%d" % c, "read_error"))
    if base.stdout:
        cand = {0, 1, len(base.stdout) - 1, rng.randrange(len(base.stdout)), rng.randrange(min(len(base.stdout), 5000))}
        cand = sorted(cand)
        rng.shuffle(cand)
        for c in cand[:1 if quick else 4]:
            io_runs.append(("epipe=%d" % c, "stdout_reader_gone"))
    for (spec, kind) in io_runs:
        p2 = core.Plan.from_json(json.loads(json.dumps(plan.to_json())))
        p2.iofault = spec
        if rng.random() < 0.3:
            p2.signals = [rng.randrange(0, n + 1)]
        res = run_with(scn, p2)
        cr.faults[kind] += 1
        if b"No space left on device" in res.stderr:
            cr.probes["enospc_reported_by_extraction"] += 1
        if b"Input/output error" in res.stderr:
            cr.probes["eio_reported"] += 1
        vs = account(res, p2, kind)
        if not vs and kind == "stdout_reader_gone" and not res.trace.signals_delivered:
            k = int(spec.split("=")[1])
            if res.stdout != base.stdout[:k]:
                rp = {"scenario": scn.to_json(), "plan": p2.as_replay(res.trace).to_json(), "class": "stdout_not_a_prefix_after_epipe", "descr": descr,
                      "expect_stdout_b64": __import__("base64").b64encode(base.stdout[:k]).decode()}
                cr.violations.append(Violation("stdout_not_a_prefix_after_epipe", "stdout accepted %d bytes then EPIPE; the %d bytes written are not the "
                                               "first %d bytes of the fault-free output" % (k, len(res.stdout), k), rp))
    if True:
        cr.sample = {"argv": scn.argv, "sources": descr, "base_steps": n, "policy": plan.policy,
                     "signal_steps_tried": "all 0..N" if not quick else "stratified sample", "io_faults_tried": [s_ for (s_, _) in io_runs]}
    return cr


def classes_of(rp):
    scn = core.Scenario.from_json(rp["scenario"])
    plan = core.Plan.from_json(rp["plan"])
    res = run_with(scn, plan)
    cl = set(c for (c, _) in evaluate(res))
    if not cl and rp.get("expect_stdout_b64") is not None:
        import base64
        if res.stdout != base64.b64decode(rp["expect_stdout_b64"]):
            cl.add("stdout_not_a_prefix_after_epipe")
    return cl


def replay(rp):
    cl = classes_of(rp)
    return (rp.get("class") in cl) if rp.get("class") else bool(cl)


def minimise(rp, cls):
    cur = json.loads(json.dumps(rp))
    runs = 0
    # 1. drop the second signal, 2. shortest failing prefix of the choice list, 3. drop sources
    if len(cur["plan"].get("signals", [])) > 1:
        cand = json.loads(json.dumps(cur))
        cand["plan"]["signals"] = cand["plan"]["signals"][:1]
        if core.budget_ok() and cls in classes_of(cand):
            cur = cand
    ch = cur["plan"].get("choices") or []
    lo, hi = 0, len(ch)
    while lo < hi and runs < 30:
        mid = (lo + hi) // 2
        cand = json.loads(json.dumps(cur))
        cand["plan"]["choices"] = ch[:mid]
        runs += 1
        if core.budget_ok() and cls in classes_of(cand):
            hi = mid
        else:
            lo = mid + 1
    cand = json.loads(json.dumps(cur))
    cand["plan"]["choices"] = ch[:hi]
    if core.budget_ok() and cls in classes_of(cand):
        cur = cand
    i = 0
    while len(cur["scenario"]["files"]) > 1 and i < len(cur["scenario"]["files"]) and runs < 60:
        cand = json.loads(json.dumps(cur))
        f = cand["scenario"]["files"].pop(i)
        cand["scenario"]["argv"] = [a for a in cand["scenario"]["argv"] if a != f["path"]]
        runs += 1
        if core.budget_ok() and cls in classes_of(cand):
            cur = cand
        else:
            i += 1
    return cur


RULE = ("one case = 1..3 compressed/archived journal or evtx sources (shipped NoEvents.evtx, Kernel-PnP evtx, "
        "Ubuntu22 journal, generated journals of 0..150 entries; containers gz/bz2/xz/lz4/tar; 25% truncated so extraction fails half-way, 15% well-formed containers around damaged content so the reader rejects the extracted copy), optionally a text "
        "source; a base run without signal plus SIGINT delivered at step k for k in a stratified sample of the "
        "temp-file life cycle (quick) or every k in 0..N (thorough), 15% with a second SIGINT; plus runs in which "
        "TMPDIR fills up after N bytes (ENOSPC, N on 0/1/64KiB edges/random) or stdout's reader goes away after N bytes "
        "(EPIPE) or reads of the inputs and of the extracted copies fail after N bytes (EIO), 30% of them with a SIGINT as well. non-trivial = every "
        "run (each ends in process exit with a private TMPDIR inspected); distinct = (scenario, signal steps, decision sequence)")
ASSUMPTIONS = ["a SIGINT that arrives while no handler is installed ends the process by the default action at that step (exit code 97 of the simulator); TMPDIR is inspected all the same",
               "the handler closure runs on a dedicated thread, serially per signal, as the ctrlc crate does",
               "journal / evtx inputs limited to the files shipped in /repo/logs"]


def main(tier):
    n = 240 if tier == "quick" else 500
    cap = 400 if tier == "quick" else 1500
    return engine.run_check(PROP, "c18", tier, n, cap, "fault_enumeration", RULE, ASSUMPTIONS)
