"""C12 -- the read block size never changes what is printed.

Knob-invariance (metamorphic) oracle: one scenario, stdout at each --blocksz in
{64, 65, 100, 127, 128, 255, 256, 1000, 4096, 65536, 0xFFFFFF} + sizes derived from the content
(line length +-1, file size +-1, file size / k) must equal stdout at the default block size (and
the model). Content from the boundary-targeting generator; all containers; 1..3 sources.

Known finding F-C12a (block-zero analysis silently drops a file whose first timestamped line does
not end inside block zero, or - for block zero >= 8096 bytes - that holds fewer than 3 lines /
2 messages): the bulk of generated (scenario, size) pairs is steered inside the acceptance
predicate `merge.blockzero_safe`; the pinned replay known/F-C12a.json shows the finding itself.
"""
import base64
import json

import core
import engine
import merge
import mergecheck
import tracecheck
from engine import Violation, CaseResult

PROP = "C12"
FIXED = (64, 65, 100, 127, 128, 255, 256, 1000, 4096, 8095, 8096, 8097, 65536, 0xFFFFFF)     # (8096: where the block-zero thresholds change)


def derived_sizes(rng, srcs):
    out = set()
    for s in srcs:
        if not s.plain:
            continue
        n = len(s.plain)
        for d in (-1, 0, 1):
            out.add(n + d)
        for k in (2, 3, 4):
            out.add(n // k)
        for m in s.msgs[:4]:
            ln = len(m.data.split(b"\n")[0]) + 1
            for d in (-1, 0, 1):
                out.add(ln + d)
                out.add(len(m.data) + d)
    return sorted(b for b in out if 64 <= b <= 0xFFFFFF)


def in_stamp_sizes(rng, srcs, want=6):
    """block sizes that put a block boundary at an inner byte of some message's stamp: for a message starting at offset o
    and a byte d of its first 40, the sizes (o + d) / k that are whole and at least 64"""
    out = set()
    for s in srcs:
        if not s.plain or not s.msgs:
            continue
        head = len(s.plain) - sum(len(m.data) for m in s.msgs)       # preamble before the first message
        offs = []
        o = head
        for m in s.msgs:
            if o > 0:
                offs.append(o)
            o += len(m.data)
        for _ in range(want * 3):
            if not offs:
                break
            o = rng.choice(offs)
            x = o + (rng.randint(1, 40) if rng.random() < 0.5 else rng.randint(18, 30))      # (half of them among the seconds / fraction / zone)
            ks = [k for k in (1, 2, 3, 4, 5, 7) if x % k == 0 and x // k >= 64]
            if ks:
                out.add(x // rng.choice(ks))
    out = sorted(out)
    rng.shuffle(out)
    return out[:want]


def gen_wild(rng):
    """content outside the single-notation generator: a second timestamp notation and digits appear inside messages
    (legal input; no reference model -- the oracle for this family is only 'same output as at the default block size')"""
    import world
    t = 946684800_000_000_000 + rng.randrange(10**6) * 1_000_000_000
    out = bytearray()
    n = rng.randint(3, 25)
    for i in range(n):
        t += rng.choice((0, 1, 2, 60)) * 1_000_000_000
        out += world.stamp(t, 0, 1, 3) + b" W" + world.tag26(i) + b" " + world._body(rng, rng.randint(0, 25 if i < 2 else 80), 0) + b"\n"
        if rng.random() < 0.35:
            y, mo, d, h, mi, sec, _ = world.civil(t + rng.choice((0, 1, 5)) * 1_000_000_000, 0)
            style = rng.randrange(3)
            if style == 0:
                ln = b"%04d-%02d-%02d %02d:%02d:%02d inner stamp " % (y, mo, d, h, mi, sec)
            elif style == 1:
                ln = b"[%04d/%02d/%02d %02d:%02d:%02d] bracketed " % (y, mo, d, h, mi, sec)
            else:
                ln = b"  at line %d of 0x%x items, pid %d " % (rng.randrange(10**4), rng.randrange(10**6), rng.randrange(10**5))
            out += ln + world._body(rng, rng.randint(0, 60), 0) + b"\n"
    return bytes(out)


def gen_long(rng):
    """lines far longer than the printer's 2056-byte staging buffer and than most block sizes: three short messages first (so
    that block zero is acceptable at every size, see F-C12a), then messages whose lines run to 2..70 KB"""
    import world
    srcs = []
    for k in range(rng.choice((1, 1, 2))):
        head_p = world.TextLogParams(n_msgs=3, src_letter=bytes([76 + k]), cont_p=0.0, body_len=(0, 20), long_p=0.0)
        head, hm, _ = world.gen_text_log(rng, head_p)
        t_next = hm[-1].instant + 1_000_000_000
        tail_p = world.TextLogParams(n_msgs=rng.randint(1, 6), src_letter=bytes([78 + k]), cont_p=rng.choice((0.0, 0.4)), long_p=0.0,
                                     body_len=rng.choice(((1900, 2300), (2000, 9000), (2040, 2080), (3000, 70000))), t0=t_next,
                                     steps=(1_000_000_000,))
        tail, tm, _ = world.gen_text_log(rng, tail_p)
        content = head + tail
        srcs.append(merge.Source("l%d.log" % k, "text", hm + tm, content, content))
    return srcs


def gen_aligned(rng):
    """the first message is multi-line and its first line ends exactly on (or one byte around) the last byte of a block for
    one of the sizes tried; the lines that follow carry no timestamp and run from a few bytes to several blocks"""
    import world
    L = rng.choice((64, 64, 96, 100, 127, 128, 255, 256)) + rng.choice((0, 0, 0, -1, 1))
    t = 946684800_000_000_000 + rng.randrange(10**6) * 1_000_000_000
    msgs = []
    out = bytearray()
    nmsg = rng.randint(4, 9)
    for i in range(nmsg):
        t += rng.choice((0, 1, 60)) * 1_000_000_000
        head = world.stamp(t, 0, 1, 3) + b" A" + world.tag26(i) + b" "
        if i == 0:
            m = head + world._body(rng, max(0, L - len(head) - 1), 0) + b"\n"
            for _ in range(rng.randint(1, 3)):
                m += b" c " + world._body(rng, rng.choice((0, 5, L - 4, L - 3, L, 2 * L, 3 * L + 7, rng.randint(1, 4 * L))), 0) + b"\n"
        else:
            m = head + world._body(rng, rng.choice((0, 10, 40, L, 2 * L)), 0) + b"\n"
            if rng.random() < 0.3:
                m += b" c " + world._body(rng, rng.randint(0, 2 * L), 0) + b"\n"
        out += m
        msgs.append(world.Msg(t, bytes(m), b""))
    content = bytes(out)
    return [merge.Source("al.log", "text", msgs, content, content)], L


def gen_case(rng):
    n = rng.choice((1, 1, 2, 3))
    target = rng.choice((64, 100, 128, 256, 512))
    srcs = merge.gen_sources(rng, n, target, max_msgs=rng.choice((3, 8, 20)),
                             containers=("plain", "plain", "gz", "bz2", "xz", "lz4"),
                             allow_degenerate=False, tie_heavy=True, crlf_p=rng.choice((0.0, 0.2)),
                             preamble_p=0.0, first_line_max=60, safe_sizes=(64, 65536),
                             notations=(1, 1, 2, 3, 0, 6, 6, 7), frac_choices=(3, 6, 6, 9, 1))
    return srcs


def run_case(seed, i, tier):
    rng = core.rng_for(seed, PROP, i)
    wild = i % 4 == 3
    if wild:
        srcs = []
        for k in range(rng.choice((1, 1, 2))):
            content = gen_wild(rng)
            srcs.append(merge.Source("w%d.log" % k, "text", [], content, content))
        base_opts = ["--color", "never", "--tz-offset", "+00:00"] + rng.choice(([], ["--separator", "<#>"], ["-u", "-d", "%s|"], ["-n", "--separator", "<#>", "-u"]))
        expected = None
    elif i % 4 == 2 and i % 8 == 2:
        srcs, L_al = gen_aligned(rng)
        base_opts = ["--color", "never", "--tz-offset", "+00:00"]
        expected = merge.model_stdout(srcs)
    elif i % 4 == 1:
        srcs = gen_long(rng)
        base_opts = ["--color", "never", "--tz-offset", "+00:00"]
        expected = merge.model_stdout(srcs)
    elif i % 16 == 4:
        # the stamp inside the line (prefix of 0..400 bytes, JSON-lines): found by the wide patterns, whose search slice of
        # up to 1024 / 2056 bytes spans several small blocks
        srcs = merge.gen_sources(rng, rng.choice((1, 1, 2)), 512, max_msgs=rng.choice((3, 8, 20)), containers=("plain", "plain", "gz", "lz4"),
                                 allow_degenerate=False, tie_heavy=True, first_line_max=None, safe_sizes=(65536,), notations=(4, 5))
        base_opts = ["--color", "never", "--tz-offset", "+00:00"]
        expected = merge.model_stdout(srcs)
    else:
        srcs = gen_case(rng)
        base_opts = ["--color", "never", "--tz-offset", "+00:00"]
        expected = merge.model_stdout(srcs)
    if not wild and rng.random() < 0.5:
        # show the instant each message was given: a block boundary inside a stamp must not change what is parsed from it
        base_opts = base_opts + rng.choice((["-u", "-d", "%Y%m%dT%H%M%S%.9f|"], ["-u", "-d", "%Y%m%dT%H%M%S%.9f|", "-n"], ["-l", "-d", "%s%.6f "]))
        expected = None
        dated = True
    else:
        dated = False
    if not wild and rng.random() < 0.2:
        # in colour: where the escape sequences fall must not depend on how a line is cut into blocks either
        base_opts = ["--color", "always"] + base_opts[2:]
        expected = None
        cr_colour = True
    else:
        cr_colour = False
    sizes = list(FIXED)
    if i % 4 == 1:
        sizes += [2048, 2055, 2056, 2057, 2100, 8192]      # around the printer's staging buffer
    aligned = i % 8 == 2
    if aligned:
        al = [b for b in (L_al - 1, L_al, L_al + 1, 2 * L_al, 3 * L_al) if b >= 64]
        sizes = al + [b for b in sizes if b not in al]
    ds = derived_sizes(rng, srcs)
    rng.shuffle(ds)
    sizes += ds[:6 if tier == "quick" else 16]
    inst = [b for b in in_stamp_sizes(rng, srcs, 6 if tier == "quick" else 16) if b not in sizes] if not wild else []
    sizes += inst
    if tier == "quick":
        keep = set(rng.sample(sizes, min(len(sizes), 8)))
        if aligned:
            keep.update(sizes[:3])
        keep.update(inst[:4 if dated else 2])
        sizes = [b for b in sizes if b in keep]
    cr = CaseResult()
    nw = mergecheck.n_workers(srcs)
    prng = core.rng_for(seed, PROP, i, "plan")
    plan = core.random_plan(prng, nw, budget=400000)
    plan.hashseed = rng.getrandbits(32)
    _, ref = mergecheck.run_once(srcs, base_opts, plan)
    cr.runs += 1
    vs0 = mergecheck.evaluate(ref, expected, check_protocol=False)
    for (cls, detail) in vs0:
        rp = mergecheck.make_replay(srcs, base_opts, plan, "UTC", ref, {"class": cls})
        cr.violations.append(Violation(cls, "default block size: %s" % detail, rp))
    if vs0:
        return cr
    if wild:
        cr.probes["wild_content_family"] += 1
    if i % 4 == 1:
        cr.probes["long_line_family"] += 1
    if aligned:
        cr.probes["aligned_multiline_first_message_family"] += 1
    if i % 16 == 4:
        cr.probes["stamp_inside_the_line_family"] += 1
    if dated:
        cr.probes["parsed_instant_shown"] += 1
    if cr_colour:
        cr.probes["in_colour"] += 1
    for bsz in sizes:
        if wild:
            # F-C12a steering for this family: the first line (<= 70 bytes) must end inside block zero, and a block zero
            # of >= 8096 bytes needs three lines: true for every size here except when the file is tiny and the size large
            if bsz < 72:
                continue
        elif not all(merge.blockzero_safe(s.plain, s.msgs, bsz) for s in srcs if s.plain is not None):
            cr.probes["size_steered_away_from_F-C12a"] += 1
            continue
        opts = base_opts + ["--blocksz", rng.choice((str, str, str, str, str, hex, hex, oct, bin))(bsz)]
        _, res = mergecheck.run_once(srcs, opts, plan)
        tr = res.trace
        cr.runs += 1
        cr.steps += tr.steps
        cr.steps_max = max(cr.steps_max, tr.steps)
        cr.policies[plan.policy.split(":")[0]] += 1
        cr.faults["knob_blocksz"] += 1
        cr.decision_hashes.append(tr.decision_hash())
        cr.arrival_hashes.append(tr.arrival_hash())
        cr.nontrivial_keys.append(core.derive(0, "%s|%d" % (merge.scenario_for(srcs, base_opts).digest(), bsz)))
        vs = mergecheck.evaluate(res, None, check_protocol=False)
        if not vs and res.stdout != ref.stdout:
            vs.append(("stdout_differs_from_default_blocksz", mergecheck.show_diff(res.stdout, ref.stdout)))
        if not vs and res.rc != ref.rc:
            vs.append(("exit_status_differs_from_default_blocksz", "exit %s at --blocksz %d, %s at the default" % (res.rc, bsz, ref.rc)))
        for (cls, detail) in vs:
            rp = mergecheck.make_replay(srcs, opts, plan, "UTC", res, {
                "class": cls, "no_model": True, "reference_stdout_b64": base64.b64encode(ref.stdout).decode(),
                "reference_rc": ref.rc})
            cr.violations.append(Violation(cls, "--blocksz %d sources=%s: %s" % (bsz, merge.describe(srcs), detail), rp))
        if vs:
            break
    cr.sample = {"sources": merge.describe(srcs), "block_sizes": sizes, "argv_base": base_opts}
    return cr


def classes_of(rp):
    cl = mergecheck.classes_of(rp, check_protocol=False)
    out = set()
    for c in cl:
        out.add({"stdout_differs_across_schedules": "stdout_differs_from_default_blocksz",
                 "exit_status_differs_across_schedules": "exit_status_differs_from_default_blocksz"}.get(c, c))
    return out


def replay(rp):
    cl = classes_of(rp)
    return (rp.get("class") in cl) if rp.get("class") else bool(cl)


RULE = ("one case = 1..3 generated text logs (boundary-targeted, all containers; every 4th case lines of 2..70 KB; every 8th case a multi-line first message whose first line ends exactly on a block's last byte, followed by lines of up to several blocks; every 4th "
        "case 'wild' content with a second timestamp notation inside messages) printed at the default block size and "
        "at ~8 (quick) / all (thorough) of {64,65,100,127,128,255,256,1000,4096,65536,0xFFFFFF} + content-derived "
        "sizes (line length +-1, message length +-1, file size +-1, file size/k, and sizes that put a block boundary at an inner byte of some message's stamp), spelled in any of the four radixes; 40% of the cases show each message's parsed instant (-u/-l -d ...%.9f); "
        "non-trivial = a run at a non-default size; distinct = (scenario digest, block size)")
ASSUMPTIONS = ["(scenario, size) pairs outside merge.blockzero_safe are skipped and counted (known finding F-C12a)",
               "block sizes below 64 are rejected by the binary and not explored"]


def main(tier):
    n = 400 if tier == "quick" else 20000
    cap = 300 if tier == "quick" else 1500
    return engine.run_check(PROP, "c12", tier, n, cap, "exploration", RULE, ASSUMPTIONS)
