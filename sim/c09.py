"""C09 -- journal files: every entry once, in journal order, fields intact.

Inputs: the journal files shipped in /repo/logs (plain, or recovered from the shipped .xz copies).
Independent reader: `journalctl --file F -o export` (systemd 252; binary-safe export format parsed
here): the sequence of __CURSOR / __REALTIME_TIMESTAMP and the field sets. Oracles per rendering:
  export  every printed entry (split on a --separator marker) is exactly the stored fields,
          `NAME=value` for each field journalctl reports, nothing missing, nothing extra;
  cat     the entry's MESSAGE text;
  others  exactly-once and order: the number of printed entries and, entry by entry, the first line
          of MESSAGE (their datetime formatting is documented as differing from journalctl).
The datetime window is applied to the journal receive time (microseconds), bounds exactly on /
1 us off / between entry times. Plain and every container; all --tz-offset values; under schedules.
"""
import os
import struct
import subprocess

import core
import engine
import fixtures
import mergecheck
import world
import c03
from engine import Violation, CaseResult

PROP = "C09"
MARK = "<#J-SEP#>"
RENDERINGS = ("short", "short-precise", "short-iso", "short-iso-precise", "short-full", "short-monotonic", "short-unix",
              "verbose", "export", "cat")
_DUMP = {}
FORCE_WINDOW = False      # set by C03 when it runs this check for its own purpose (every case gets a window)


def parse_export(buf):
    """journal export format -> list of entries; entry = list of (name, value bytes) in reported order"""
    entries = []
    cur = []
    i = 0
    n = len(buf)
    while i < n:
        if buf[i:i + 1] == b"\n":
            if cur:
                entries.append(cur)
                cur = []
            i += 1
            continue
        e = buf.find(b"\n", i)
        line = buf[i:e]
        eq = line.find(b"=")
        if eq >= 0:
            cur.append((line[:eq], line[eq + 1:]))
            i = e + 1
        else:
            (ln,) = struct.unpack_from("<Q", buf, e + 1)
            val = buf[e + 9:e + 9 + ln]
            cur.append((line, val))
            i = e + 9 + ln + 1
    if cur:
        entries.append(cur)
    return entries


def dump(name):
    if name in _DUMP:
        return _DUMP[name]
    ents = dump_bytes(fixtures.load(name), name)
    _DUMP[name] = ents
    return ents


def dump_bytes(data, name="gen"):
    """what the independent reader (journalctl) finds in a journal file given as bytes"""
    d = os.path.join(core.scratch_root(), "journals")
    os.makedirs(d, exist_ok=True)
    p = os.path.join(d, "%s-%d.journal" % (name, os.getpid()))
    with open(p, "wb") as fh:
        fh.write(data)
    try:
        out = subprocess.run(["journalctl", "--file", p, "-o", "export", "--no-pager"], stdout=subprocess.PIPE,
                             stderr=subprocess.PIPE, check=True).stdout
    finally:
        os.unlink(p)
    ents = []
    for e in parse_export(out):
        d_ = {}
        for (k, v) in e:
            d_.setdefault(k, []).append(v)
        ents.append({"fields": e, "rt": int(d_[b"__REALTIME_TIMESTAMP"][0]), "cursor": d_[b"__CURSOR"][0],
                     "message": d_.get(b"MESSAGE", [None])[0]})
    return ents


def gen_journal(rng):
    """a generated journal (sim/journalgen.py) + its entries as read back by journalctl, which must agree with the
    generator entry by entry (receive time, stored fields): otherwise the harness, not s4, is at fault"""
    import journalgen
    n = rng.choice((0, 1, 2, 3, 5, 12, 40, 150))
    pattern = rng.choice(("increasing", "increasing", "ties", "same", "subsecond", "stepped_back"))
    xz = rng.random() < 0.3         # long values, stored XZ-compressed as journald does
    nomsg = rng.choice((0.0, 0.0, 0.0, 0.5, 0.9))      # entries without a MESSAGE field
    gents = journalgen.gen_entries(rng, n, pattern=pattern, long_p=0.5 if xz else 0.0, nomsg_p=nomsg)
    for k, e in enumerate(gents):
        e.fields.append((b"_BOOT_ID", e.boot.hex().encode()))        # every real entry stores it
        if rng.random() < 0.3:
            # the sender's own clock: may differ from the receive time in either direction (s4 sorts and filters on the receive time)
            e.fields.append((b"_SOURCE_REALTIME_TIMESTAMP", b"%d" % (e.rt + rng.choice((-5_000_000, -1, 0, 3, 2_000_000)))))
    data = journalgen.build(gents, rng, seqnum_start=rng.choice((1, 1, 77000)), pad_to=rng.choice((None, None, 65536)), compress_xz=xz)
    ents = dump_bytes(data)
    if len(ents) != len(gents):
        raise RuntimeError("generated journal: journalctl reads %d entries, generator wrote %d" % (len(ents), len(gents)))
    for (a, g) in zip(ents, gents):
        stored = sorted(set((k_, v_) for (k_, v_) in a["fields"] if not k_.startswith(b"__")))
        if a["rt"] != g.rt or stored != sorted(set(g.fields)):
            raise RuntimeError("generated journal: journalctl reads entry %r differently from what the generator wrote" % (a["cursor"],))
    return data, ents, "gen(n=%d,%s%s)" % (n, pattern, ",xz" if xz else "")


def select(ents, a_us, b_us):
    """window on receive time. Returns (indices by filter semantics, indices by seek-and-stop semantics)"""
    flt = [i for i, e in enumerate(ents) if (a_us is None or e["rt"] >= a_us) and (b_us is None or e["rt"] <= b_us)]
    start = 0
    if a_us is not None:
        start = next((i for i, e in enumerate(ents) if e["rt"] >= a_us), len(ents))
    stop = len(ents)
    if b_us is not None:
        stop = next((i for i in range(start, len(ents)) if ents[i]["rt"] > b_us), len(ents))
    return flt, list(range(start, stop))


def check_export(chunk, ent):
    """the printed entry must be exactly the stored fields (any order): remove every NAME=value once"""
    rest = chunk
    for (k, v) in sorted(ent["fields"], key=lambda kv: -len(kv[1])):
        piece = k + b"=" + v + b"\n"
        j = rest.find(piece)
        if j < 0:
            return "field %r=%r... of entry %r is missing from the printed entry" % (k, v[:40], ent["cursor"][:40])
        rest = rest[:j] + rest[j + len(piece):]
    if rest.strip(b"\n") != b"":
        return "printed entry %r holds extra bytes beyond the stored fields: %r" % (ent["cursor"][:40], rest[:120])
    return None


def check(stdout, rendering, ents, idxs):
    parts = stdout.split(MARK.encode())
    tail = parts.pop()
    if tail.strip(b"\n") != b"":
        return "bytes after the last separator: %r" % tail[:80]
    if rendering == "cat":
        # an entry that stores no MESSAGE has no text to show: journalctl -o cat prints nothing for it either
        idxs = [i for i in idxs if ents[i]["message"] is not None]
    if len(parts) != len(idxs):
        return "printed %d entries, expected %d" % (len(parts), len(idxs))
    for (p, i) in zip(parts, idxs):
        e = ents[i]
        if rendering == "export":
            d = check_export(p, e)
            if d:
                return "entry #%d: %s" % (i, d)
        elif rendering == "cat":
            want = (e["message"] if e["message"] is not None else b"") + b"\n"
            if p != want:
                return "entry #%d: cat text %r, stored MESSAGE %r" % (i, p[:100], want[:100])
        else:
            m = e["message"]
            if m:
                first = m.split(b"\n")[0]
                if first and all(32 <= c < 127 for c in first) and first not in p:
                    return "entry #%d (%s): printed text lacks its own MESSAGE %r: %r" % (i, rendering, first[:60], p[:160])
    return None


def run_case(seed, i, tier):
    rng = core.rng_for(seed, PROP, i)
    if tier == "quick":
        name = rng.choice(("u22x3", "u22x3", "ubuntu16", "ubuntu16", "ubuntu16", "rhe91", "opensuse15"))
    else:
        name = rng.choice(("u22x3", "ubuntu16", "ubuntu16", "rhe91", "opensuse15"))
    if rng.random() < 0.5:
        data, ents, gdesc = gen_journal(rng)
        name = "gen"
    else:
        ents = dump(name)
        data = fixtures.load(name)
        gdesc = None
    cont = rng.choice(("plain", "plain", "plain", "gz", "xz", "lz4", "tar", "bz2"))
    if cont == "bz2" and len(data) > 3_000_000:
        cont = "gz"
    rts = [e["rt"] // 1_000_000 for e in ents] or [1_600_000_000]
    mt_file, mt_in = world.mtime_around(rng, min(rts), max(rts)), world.mtime_around(rng, min(rts), max(rts))
    if cont == "tar":
        stored = world.to_tar([(world.member_path(rng, "j.journal"), data, mt_in)], rng.choice(("ustar", "gnu", "pax")))
        path = "jr.tar"
    elif cont == "plain":
        stored, path = data, "j.journal"
    else:
        stored, _ = world.random_container(rng, cont, data, mt_in, "j.journal")
        path = "j.journal" + world.SUFFIX[cont]
    rendering = rng.choice(RENDERINGS + ("export", "export", "cat"))
    tzo = rng.choice(("+00:00", "+05:30", "-08:00", "+14:00", "-11:30"))
    opts = ["--color", "never", "--tz-offset=" + tzo, "--separator", MARK, "--journal-output", rendering]
    a = b = None
    form = rng.choice(("none", "both", "both", "only_a", "only_b", "a_eq_b"))
    if FORCE_WINDOW and form == "none":
        form = "both"
    idxs = list(range(len(ents)))
    if form != "none":
        ts = sorted(set(e["rt"] * 1000 for e in ents)) or [1_600_000_000_000_000_000]
        a = c03.place(rng, ts) if form != "only_b" else None
        b = c03.place(rng, ts) if form != "only_a" else None
        if form == "a_eq_b":
            b = a
        if a is not None and b is not None and a > b:
            a, b = b, a
        flt, seek = select(ents, None if a is None else a // 1000, None if b is None else b // 1000)
        monotone = all(ents[k]["rt"] <= ents[k + 1]["rt"] for k in range(len(ents) - 1))
        if flt != seek or not monotone:
            # receive times of this file are not monotone: "filter", "seek linearly + stop at the first entry past B" and
            # what libsystemd really does (bisection over the entry array, after comparing the bound with the header's
            # head / tail receive times) can all differ, and the statement names none of them; no window for this case
            a = b = None
            form = "none(non-monotone)"
        else:
            idxs = flt
            if a is not None:
                opts += ["-a", c03.fmt_bound(rng, a)]
            if b is not None:
                opts += ["-b", c03.fmt_bound(rng, b)]
    scn = core.Scenario([core.FileSpec(path, stored, mt_file)], opts + [path], None, rng.choice(("UTC", "XYZ5")))
    prng = core.rng_for(seed, PROP, i, "plan")
    plan = core.random_plan(prng, 1, budget=6_000_000)
    plan.hashseed = rng.getrandbits(32)
    res = core.execute(scn, plan)
    tr = res.trace
    cr = CaseResult()
    cr.runs = 1
    cr.steps = tr.steps
    cr.steps_max = tr.steps
    cr.policies[plan.policy.split(":")[0]] += 1
    cr.probes["journal_" + name] += 1
    if gdesc:
        cr.probes["generated_journal_" + gdesc.split(",")[1].rstrip(")")] += 1
        if len(set(e["rt"] for e in ents)) < len(ents):
            cr.probes["generated_journal_with_equal_receive_times"] += 1
    cr.probes["rendering_" + rendering] += 1
    cr.probes["container_" + cont] += 1
    cr.probes["window_" + form] += 1
    rts = set(e["rt"] * 1000 for e in ents)
    if a in rts or b in rts:
        cr.probes["bound_exactly_on_an_entry_time"] += 1
    cr.decision_hashes.append(tr.decision_hash())
    cr.arrival_hashes.append(tr.arrival_hash())
    cr.nontrivial_keys.append(core.derive(0, "%s|%s|%s|%s|%s|%s" % (name, cont, rendering, a, b, tzo)))
    vs = mergecheck.evaluate(res, None, check_protocol=False)
    if not vs and res.rc != 0:
        vs.append(("exit_status_nonzero_for_a_valid_file", "exit status %s; stderr tail %r" % (res.rc, res.stderr[-200:])))
    if not vs:
        d = check(res.stdout, rendering, ents, idxs)
        if d:
            vs.append(("entries_differ", d))
    for (cls, detail) in vs:
        rp = {"scenario": scn.to_json() if len(stored) < 3_000_000 else None, "fixture": name, "container": cont, "opts": opts, "mtime": mt_file,
              "gen_plain_b64": __import__("base64").b64encode(data).decode() if name == "gen" else None,
              "path": path, "plan": plan.as_replay(tr).to_json(), "class": cls, "rendering": rendering, "idxs": [idxs[0], idxs[-1]] if idxs else [],
              "n_idx": len(idxs), "tz": scn.tz}
        cr.violations.append(Violation(cls, "journal=%s container=%s rendering=%s window=%s a=%s b=%s tz-offset=%s: %s" % (
            name, cont, rendering, form, a, b, tzo, detail), rp))
    cr.sample = {"argv": scn.argv, "journal": gdesc or name, "entries_in_file": len(ents), "expected_selected": len(idxs)}
    return cr


def classes_of(rp):
    if rp["fixture"] == "gen":
        ents = dump_bytes(__import__("base64").b64decode(rp["gen_plain_b64"]))
    else:
        ents = dump(rp["fixture"])
    if rp.get("scenario"):
        scn = core.Scenario.from_json(rp["scenario"])
    else:
        # large plain journals are not inlined in the replay file: rebuilt from the shipped fixture
        data = fixtures.load(rp["fixture"])
        if rp["container"] != "plain":
            raise RuntimeError("replay of a large compressed journal needs the inlined scenario")
        scn = core.Scenario([core.FileSpec(rp["path"], data, rp.get("mtime", 1600000000))], rp["opts"] + [rp["path"]], None, rp.get("tz", "UTC"))
    plan = core.Plan.from_json(rp["plan"])
    res = core.execute(scn, plan)
    cl = set(c for (c, _) in mergecheck.evaluate(res, None, check_protocol=False))
    if not cl:
        idxs = list(range(rp["idxs"][0], rp["idxs"][1] + 1)) if rp["idxs"] else []
        if check(res.stdout, rp["rendering"], ents, idxs):
            cl.add("entries_differ")
    return cl


def replay(rp):
    cl = classes_of(rp)
    return (rp.get("class") in cl) if rp.get("class") else bool(cl)


RULE = ("one case = a generated journal (sim/journalgen.py: 0..150 entries; receive times increasing / tied / all equal / "
        "sub-second apart; multi-line and binary field values; 1-2 boots; varied hash-table and entry-array shapes) or one "
        "shipped journal (Ubuntu22 user journal 3 entries, Ubuntu16 system 289, OpenSUSE15 1120, RHEL9.1 "
        "2081) plain or in gz/bz2/xz/lz4/tar, one of the ten --journal-output renderings, a --tz-offset, and no window or a "
        "window with bounds exactly on / 1 us off / between receive times; compared with `journalctl --file -o export`; "
        "non-trivial = every run; distinct = (journal, container, rendering, window, zone)")
ASSUMPTIONS = ["journalctl (systemd 252) is the reference reader for entry order, receive times and field contents",
               "a journal whose receive times are not monotone (wall clock set back) is printed without a window: filter, linear seek+stop and libsystemd's bisection with header shortcuts differ there and the statement names none",
               "generated journals use the regular (non-compact, Jenkins-hash, uncompressed) layout; a generated file is used only after journalctl reads back exactly the generator's entries"]


def main(tier):
    n = 300 if tier == "quick" else 20000
    cap = 400 if tier == "quick" else 1500
    return engine.run_check(PROP, "c09", tier, n, cap, "exploration", RULE, ASSUMPTIONS)
