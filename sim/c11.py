"""C11 -- year-less timestamps receive the right year.

World model: messages are "written" along a simulated timeline spanning 0..3 year boundaries
(consecutive gaps < 300 days, so the rule "time never runs backwards by more than a day" determines
every year); the file's modification time is the last write plus jitter inside that year; a later
compression stamps the gz MTIME / tar header mtime (or 0 => fall back to the file's own mtime, which
the world then sets to the same instant); --tz-offset varies. The documented exclusion (Issue #245:
29 Feb) is never generated.

Oracle (model): `-u -d %Y%m%dT%H%M%S` shows each message's inferred date = its true date; printed
order = file order; a datetime window and a cross-file merge use the inferred dates.
"""
import core
import decor
import engine
import merge
import mergecheck
import world
import c03
import c14
from engine import Violation, CaseResult

PROP = "C11"
FORCE_WINDOW = False      # set by C03 when it runs this check for its own purpose (every case gets a window)
NS = 1_000_000_000
DAY = 86400 * NS
MON = decor.MON


def stamp_yearless(instant_ns, off_min):
    y, mo, d, h, mi, s, _ = world.civil(instant_ns, off_min)
    return ("%s %2d %02d:%02d:%02d" % (MON[mo - 1], d, h, mi, s)).encode()


def is_feb29(instant_ns, off_min):
    y, mo, d, *_ = world.civil(instant_ns, off_min)
    return mo == 2 and d == 29


def gen_timeline(rng, n, off_min, boundaries):
    """n instants (whole seconds), non-decreasing, crossing `boundaries` year boundaries, gaps < 300 days"""
    y0 = rng.randint(1999, 2035)
    t = (c14.days_from_civil(y0, rng.randint(2, 11), rng.randint(1, 28)) * 86400 + rng.randrange(86400)) * NS
    out = []
    crossed = 0
    edge = rng.choice((None, None, "after", "before"))
    for i in range(n):
        if i > 0:
            r = rng.random()
            if crossed < boundaries and r < 0.07:
                # almost a year later: read in the same year the next stamp lies 25 h .. 60 h *before* this one (more than a
                # day backwards = a year boundary by the statement; the 24..25 h band, where the statement and s4's 25 h
                # threshold could disagree, is left out)
                y_, mo_, d_, h_, mi_, s_, _ = world.civil(t, off_min)
                if mo_ == 2 and d_ == 29:
                    d_ = 28
                same_next_year = ((c14.days_from_civil(y_ + 1, mo_, d_) * 86400 + h_ * 3600 + mi_ * 60 + s_) - off_min * 60) * NS
                step = same_next_year - rng.randint(25 * 3600 + 60, 60 * 3600) * NS - t
                if is_feb29(t + step, off_min):
                    step -= DAY      # (the shift away from 29 February below moves forward, which would shrink the backward jump)
            elif crossed < boundaries and r < 0.35:
                step = rng.randint(40, 299) * DAY + rng.randrange(86400) * NS
            else:
                step = rng.choice((0, 1, 60, 3600, 86400, 5 * 86400, 20 * 86400)) * NS
            y_before = world.civil(t, off_min)[0]
            t2 = t + step
            if world.civil(t2, off_min)[0] != y_before:
                if crossed >= boundaries:
                    t2 = t + rng.choice((0, 1, 60)) * NS
                    if world.civil(t2, off_min)[0] != y_before:
                        t2 = t
                else:
                    crossed += 1
            t = t2
        if i == n - 1 and edge is not None:
            prev = out[-1] if out else t
            y = world.civil(prev, off_min)[0]
            ny = (c14.days_from_civil(y + 1, 1, 1) * 86400 - off_min * 60) * NS
            if edge == "after":
                cand = ny + rng.choice((0, 5, 3600, 5 * 3600, 11 * 3600)) * NS
            else:
                cand = ny - rng.choice((1, 10, 3600, 7 * 3600, 12 * 3600)) * NS
            if cand >= prev and (cand - prev) < 299 * DAY:
                t = cand
        k = 0
        # 29 February is kept only in logs that stay inside one year: "a 29 February message followed by a message of a later
        # year" is the documented exclusion (Issue #245), and one *preceded* by a message of an earlier year is open known
        # finding F-C11a
        while is_feb29(t, off_min) and boundaries > 0 and k < 3:
            t += DAY
            k += 1
        out.append(t)
    return out


def relay_jitter(rng, inst, off_min, boundaries):
    """small steps *backwards* (1 s .. 23 h, also two or three in a row adding up to more than a day), as in a file that
    collects records relayed from several hosts: "time never runs backwards by more than a day from one message to the
    next" still holds, so every year is still determined. A step is taken only where it stays inside the year of the
    message before it, keeps clear of 29 February in multi-year logs, and leaves the gap to the next message under 299 days."""
    out = list(inst)
    i = 1
    done = 0
    while i < len(out):
        if rng.random() < 0.3:
            run = rng.choice((1, 1, 2, 3))
            for k in range(i, min(len(out), i + run)):
                delta = rng.choice((1, 60, 3600, 13 * 3600, 13 * 3600, 20 * 3600, 23 * 3600, rng.randint(1, 23 * 3600))) * NS
                cand = out[k - 1] - delta
                if world.civil(cand, off_min)[0] != world.civil(out[k - 1], off_min)[0]:
                    break
                if boundaries > 0 and is_feb29(cand, off_min):
                    break
                if k + 1 < len(out) and inst[k + 1] - cand >= 299 * DAY:
                    break
                out[k] = cand
                done += 1
            i += run
        i += 1
    return out, done


def gen_source(rng, path, letter, off_min, boundaries, n, relayed=False):
    inst = gen_timeline(rng, n, off_min, boundaries)
    if relayed:
        inst, nback = relay_jitter(rng, inst, off_min, boundaries)
    out = bytearray()
    msgs = []
    for i, t in enumerate(inst):
        d = stamp_yearless(t, off_min) + b" hostx prog: " + letter + world.tag26(i) + b" " + world._body(rng, rng.randint(0, 20), 0) + b"\n"
        if rng.random() < 0.2:
            d += b"  continued " + world._body(rng, rng.randint(0, 20), 0) + b"\n"
        out += d
        msgs.append(world.Msg(t, bytes(d), b"", off_min))
    # modification time: at or after the last write, inside the last message's year (in the log's zone),
    # including the very first and the very last seconds of that year
    last = max(inst)          # (the newest write; with relayed records that need not be the last line, whose year it shares)
    y = world.civil(last, off_min)[0]
    year_end = (c14.days_from_civil(y + 1, 1, 1) * 86400 - off_min * 60) * NS
    room = max(0, (year_end - NS) - last)
    r = rng.random()
    year_start = (c14.days_from_civil(y, 1, 1) * 86400 - off_min * 60) * NS
    if rng.random() < 0.15 and last - year_start > 3 * DAY:
        # a file restored or touched: its time lies in the last message's year, but days or months before that message
        mtime_ns = rng.randrange(year_start // NS, (last - 2 * DAY) // NS) * NS
    elif r < 0.4:
        mtime_ns = last + min(room, rng.choice((0, NS, 3600 * NS)))
    elif r < 0.55:
        mtime_ns = year_end - rng.choice((1, 2, 3600, 6 * 3600, 13 * 3600)) * NS
        if mtime_ns < last:
            mtime_ns = last
    else:
        mtime_ns = last + (rng.randrange(0, room // NS + 1) * NS if room > 0 else 0)
    return merge.Source(path, "text", msgs, bytes(out), bytes(out), "plain", {}, mtime_ns // NS)


def store(rng, s):
    """optionally compress: header mtime = the world's mtime, or 0 with the file mtime carrying it"""
    form = rng.choice(("plain", "plain", "gz_header", "gz_header0", "bz2", "xz", "tar", "lz4"))
    mt = s.mtime
    if form == "plain":
        return
    if form == "gz_header":
        s.stored = world.to_gz(s.plain, level=rng.choice((1, 6)), mtime=mt, name=rng.choice(("", "x.log")))
        s.path += ".gz"
        # the file itself was touched later (copied around): its own mtime must not matter
        # (later or earlier: an archive restored with an old time of its own is still dated by what its header says)
        s.mtime = max(1, mt + rng.choice((0, 86400 * 400, 86400 * 1200, -86400 * 400, -86400 * 800)))
    elif form == "gz_header0":
        s.stored = world.to_gz(s.plain, level=6, mtime=0)
        s.path += ".gz"
    elif form == "bz2":
        s.stored = world.to_bz2(s.plain, 9)
        s.path += ".bz2"
    elif form == "xz":
        s.stored = world.to_xz(s.plain, 0)
        s.path += ".xz"
    elif form == "lz4":
        s.stored, _ = world.random_container(rng, "lz4", s.plain, 0, s.path)
        s.path += ".lz4"
    else:
        base = s.path
        s.stored = world.to_tar([(base, s.plain, mt)], rng.choice(("ustar", "gnu", "pax")))
        s.path = base.replace(".log", "") + ".tar"
        s.mtime = max(1, mt + rng.choice((0, 86400 * 400, -86400 * 400, -86400 * 800)))
    s.container = form


def run_case(seed, i, tier):
    rng = core.rng_for(seed, PROP, i)
    off_min = rng.choice((0, 0, 60, -300, 330, -690, 540))
    sign = "+" if off_min >= 0 else "-"
    tzo = "%s%02d:%02d" % (sign, abs(off_min) // 60, abs(off_min) % 60)
    nsrc = rng.choice((1, 1, 2, 3))
    srcs = []
    for k in range(nsrc):
        s = gen_source(rng, "y%d.log" % k, bytes([65 + k]), off_min, rng.choice((0, 1, 1, 2, 3)), rng.choice((2, 5, 12, 30)),
                       relayed=(not FORCE_WINDOW) and rng.random() < 0.25)
        store(rng, s)
        srcs.append(s)
    bsz = rng.choice((64, 128, 512, 4096, 65536))
    dec = decor.Decoration(None, False, 0, "%Y%m%dT%H%M%S", ":", "")
    opts = ["--color", "never", "--tz-offset=" + tzo, "-u", "-d", "%Y%m%dT%H%M%S", "--blocksz", str(bsz)]
    a = b = None
    monotone = all(all(s.msgs[k].instant <= s.msgs[k + 1].instant for k in range(len(s.msgs) - 1)) for s in srcs)
    # (no window on a file whose stamps step backwards: which messages a search for the bound meets there is C03's matter)
    if (rng.random() < 0.4 and monotone) or FORCE_WINDOW:
        ts = sorted(set(m.instant for s in srcs for m in s.msgs))
        a = c03.place(rng, ts) if rng.random() < 0.7 else None
        b = c03.place(rng, ts) if (rng.random() < 0.7 or (FORCE_WINDOW and a is None)) else None
        if a is not None and b is not None and a > b:
            a, b = b, a
        if a is not None:
            a -= a % NS
            opts += ["-a", c03.fmt_bound(rng, a)]
        if b is not None:
            b -= b % NS
            opts += ["-b", c03.fmt_bound(rng, b)]
    f = c03.filtered(srcs, a, b)
    merged = [(si, m, last and f[si].last_is_file_last) for (si, m, last) in merge.model_merge(f)]
    expected = decor.model_stdout(f, merged, dec)
    cr = CaseResult()
    prng = core.rng_for(seed, PROP, i, "plan")
    plan = core.random_plan(prng, nsrc, budget=3_000_000)
    plan.hashseed = rng.getrandbits(32)
    # the program runs some time after the newest file was written
    newest = max(s.mtime for s in srcs)
    plan.now = (newest + rng.choice((1, 86400, 86400 * 500, 86400 * 3000)), rng.randrange(NS))
    _, res = mergecheck.run_once(srcs, opts, plan, rng.choice(("UTC", "XYZ5", "<+0545>-5:45")))
    tr = res.trace
    cr.runs += 1
    cr.steps += tr.steps
    cr.steps_max = tr.steps
    cr.policies[plan.policy.split(":")[0]] += 1
    cr.faults["simulated_mtime"] += 1
    cr.clock_span = (min(s.mtime for s in srcs), plan.now[0])
    spans = 0
    for s in srcs:
        ys = set(world.civil(m.instant, off_min)[0] for m in s.msgs)
        spans = max(spans, len(ys) - 1)
        cr.probes["stored_" + s.container] += 1
    cr.probes["year_boundaries_%d" % spans] += 1
    if a is not None or b is not None:
        cr.probes["with_window"] += 1
    if nsrc > 1:
        cr.probes["cross_file_merge"] += 1
    if not monotone:
        cr.probes["small_backward_steps_in_a_file"] += 1
    cr.decision_hashes.append(tr.decision_hash())
    cr.arrival_hashes.append(tr.arrival_hash())
    cr.nontrivial_keys.append(core.derive(0, merge.scenario_for(srcs, opts).digest()))
    vs = mergecheck.evaluate(res, expected, check_protocol=False)
    for (cls, detail) in vs:
        rp = {"sources": mergecheck.sources_to_json(srcs), "opts": opts, "a": a, "b": b, "plan": plan.as_replay(tr).to_json(),
              "class": cls, "tz": "UTC"}
        cr.violations.append(Violation(cls, "tz-offset=%s bsz=%d window=%s sources=%s mtimes=%s: %s" % (
            tzo, bsz, (a, b), merge.describe(srcs), [s.mtime for s in srcs], detail), rp, known=known_for(cls, srcs)))
    cr.sample = {"argv": opts + [s.path for s in srcs], "sources": merge.describe(srcs), "mtimes": [s.mtime for s in srcs],
                 "expected_head": expected[:200].decode("latin-1")}
    return cr


def feb29_after_earlier_year(srcs):
    """the precondition of F-C11a: some file holds a 29 February message with a message of an earlier year before it"""
    for s in srcs:
        years = []
        for m in s.msgs:
            y, mo, d, *_ = world.civil(m.instant, m.off_min)
            if mo == 2 and d == 29 and any(yy < y for yy in years):
                return True
            years.append(y)
    return False


def known_for(cls, srcs):
    for kf in engine.load_known(PROP):
        if kf["status"] == "open" and cls in kf["signature"].get("classes", []) and feb29_after_earlier_year(srcs):
            return kf["id"]
    return None


def classes_of(rp):
    srcs = mergecheck.sources_from_json(rp["sources"])
    plan = core.Plan.from_json(rp["plan"])
    if plan.now is not None:
        plan.now = tuple(plan.now)
    dec = decor.Decoration(None, False, 0, "%Y%m%dT%H%M%S", ":", "")
    f = c03.filtered(srcs, rp["a"], rp["b"])
    merged = [(si, m, last and f[si].last_is_file_last) for (si, m, last) in merge.model_merge(f)]
    _, res = mergecheck.run_once(srcs, rp["opts"], plan, rp.get("tz", "UTC"))
    return set(c for (c, _) in mergecheck.evaluate(res, decor.model_stdout(f, merged, dec), check_protocol=False))


def replay(rp):
    cl = classes_of(rp)
    return (rp.get("class") in cl) if rp.get("class") else bool(cl)


RULE = ("one case = 1..3 year-less syslog-style logs written along a simulated timeline crossing 0..3 year boundaries, "
        "stored plain / gz with header MTIME / gz with MTIME 0 / bz2 / xz / tar member, with simulated file and header "
        "mtimes (a stale outer mtime when the header carries the time), --tz-offset in 7 zones, optional window, seed-"
        "chosen block size, simulated program start; non-trivial = every run; distinct = scenario digest")
ASSUMPTIONS = ["gaps between consecutive messages are under 300 days or 25..60 h short of a year; 29 February appears only in logs that stay within one year (Issue #245 exclusion; open known finding F-C11a)",
               "the modification time lies in the last message's year, at least two days before its end"]


def main(tier):
    n = 1500 if tier == "quick" else 60000
    cap = 400 if tier == "quick" else 1500
    return engine.run_check(PROP, "c11", tier, n, cap, "exploration", RULE, ASSUMPTIONS)
