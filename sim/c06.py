"""C06 -- output is independent of thread scheduling and the run always ends.

Per case: one scenario (tuned to a protocol corner), K independently drawn schedules. Oracles:
 (i)   all K schedules give byte-identical stdout and the same exit status, equal to the model;
 (ii)  no DEADLOCK / LIVELOCK (step budget) / crash;
 (iii) the trace is accepted by the protocol invariants I1..I7 (tracecheck.py).
The hash seed is held fixed across the K schedules of one scenario (quantifier = schedules only).
"""
import base64

import core
import engine
import merge
import mergecheck
import tracecheck
from engine import Violation, CaseResult

PROP = "C06"
FAMILIES = ("tiny_many", "full_channel", "degenerate", "all_ties", "mixed", "early_finisher", "very_many")


def gen_case(rng, fam=None):
    fam = fam or rng.choice(FAMILIES)
    bsz = rng.choice((256, 512, 1024, 4096, 65536))
    if fam == "hundreds":
        # far more sources than any plausible pool, cap or table in the program (130..300 worker threads), most of them
        # with more messages than a channel holds, so that every early worker blocks in send() before the late ones start
        srcs = _hundreds(rng, rng.choice((130, 150, 200, 260, 300)))
    elif fam == "tiny_many":
        srcs = merge.gen_sources(rng, rng.randint(3, 6), bsz, max_msgs=3, first_line_max=bsz // 2)
    elif fam == "very_many":
        srcs = merge.gen_sources(rng, rng.randint(8, 20), bsz, max_msgs=3, first_line_max=bsz // 2)
    elif fam == "full_channel":
        srcs = merge.gen_sources(rng, rng.randint(1, 3), bsz, max_msgs=rng.choice((8, 14, 30)),
                                 allow_degenerate=False, first_line_max=bsz // 2)
    elif fam == "degenerate":
        srcs = merge.gen_sources(rng, rng.randint(2, 5), bsz, max_msgs=4, first_line_max=bsz // 2)
        # force at least one zero-message source
        d = b"no timestamp here\nnor here\n"
        srcs.insert(rng.randrange(len(srcs) + 1), merge.Source("zz_plain.log", "notimestamp", [], d, d))
    elif fam == "all_ties":
        srcs = merge.gen_sources(rng, rng.randint(2, 5), bsz, max_msgs=6, first_line_max=bsz // 2)
        t = 978307200_000_000_000
        for s in srcs:
            if s.kind == "text":
                # rewrite all stamps to one instant is not possible without regenerating; regenerate
                pass
        srcs = _all_same_instant(rng, len(srcs), bsz, t)
    elif fam == "early_finisher":
        srcs = merge.gen_sources(rng, rng.randint(2, 4), bsz, max_msgs=9, allow_degenerate=False,
                                 first_line_max=bsz // 2)
    else:
        # (notations incl. pairs where one is the other plus a zone -- 6 and 4-without-prefix -- so that what one worker
        # learns about a notation must not leak into how another worker reads its file)
        srcs = merge.gen_sources(rng, rng.randint(1, 6), bsz, max_msgs=12,
                                 containers=("plain", "plain", "gz", "bz2", "xz", "lz4"),
                                 first_line_max=bsz // 2, notations=merge.NOTATIONS_WIDE + (4, 6, 6, 4, 7))
    # unique paths
    seen = set()
    for k, s in enumerate(srcs):
        if s.path in seen:
            s.path = "d%d_%s" % (k, s.path)
        seen.add(s.path)
    # one case in four in colour: which colour a file gets is output too, and must not depend on who was ready first
    opts = ["--color", "always" if rng.random() < 0.25 else "never", "--blocksz", str(bsz), "--tz-offset", "+00:00"]
    return fam, bsz, srcs, opts


def _all_same_instant(rng, n, bsz, t):
    import world
    out = []
    for si in range(n):
        letter = bytes([65 + si])
        k = rng.randint(1, 7)
        p = world.TextLogParams(notation=rng.choice((1, 2)), off_min=rng.choice((0, 60, -300, 330)),
                                n_msgs=k, src_letter=letter, instants=[t] * k, cont_p=0.2,
                                body_len=(0, 30), final_newline=rng.random() < 0.8)
        content, msgs, _ = world.gen_text_log(rng, p)
        out.append(merge.Source("t%d.log" % si, "text", msgs, content, content))
    return out


def _hundreds(rng, n):
    import world
    t0 = 978307200_000_000_000
    pool = sorted(t0 + rng.randrange(0, 4000) * 1_000_000_000 for _ in range(40))
    out = []
    for si in range(n):
        k = rng.randint(6, 9) if rng.random() < 0.85 else rng.randint(0, 3)
        if k == 0:
            d = b"nothing dated in here\n"
            out.append(merge.Source("h%03d.log" % si, "notimestamp", [], d, d))
            continue
        p = world.TextLogParams(notation=1, off_min=0, n_msgs=k, src_letter=bytes([65 + si % 26]),
                                instants=sorted(rng.choice(pool) for _ in range(k)), cont_p=0.0, body_len=(4, 12))
        content, msgs, _ = world.gen_text_log(rng, p)
        out.append(merge.Source("h%03d.log" % si, "text", msgs, content, content))
    return out


def run_case(seed, i, tier):
    if i % 8 == 7:
        # workers of every kind (evtx, journal, accounting, text) under K schedules; scenario replays go through c01's format
        import c01
        cr = c01.run_mixed_case(seed, i, tier, K=(3 if tier == "quick" else 8), compare_schedules=True)
        for v in cr.violations:
            if v.replay is not None:
                v.replay["via"] = "c01"
        return cr
    rng = core.rng_for(seed, PROP, i)
    K = 4 if tier == "quick" else 12
    hundreds = (i % 100 == 42)
    fam, bsz, srcs, opts = gen_case(rng, "hundreds" if hundreds else None)
    if hundreds:
        K = 2
    expected = merge.model_stdout(srcs)
    hashseed = rng.getrandbits(32)
    nw = mergecheck.n_workers(srcs)
    budget = mergecheck.step_budget(srcs, bsz)
    cr = CaseResult()
    ref = None
    for k in range(K):
        prng = core.rng_for(seed, PROP, i, "plan", k)
        pols = None
        if fam == "full_channel" and k == 0:
            pols = ("starve_main",)
        if fam == "early_finisher" and k == 0:
            pols = ("first_worker",)
        plan = core.random_plan(prng, nw, budget=budget, policies=pols)
        plan.hashseed = hashseed
        _, res = mergecheck.run_once(srcs, opts, plan)
        cr.runs += 1
        tr = res.trace
        cr.steps += tr.steps
        cr.steps_max = max(cr.steps_max, tr.steps)
        cr.policies[plan.policy.split(":")[0]] += 1
        cr.probes.update(tracecheck.probes(tr))
        dh, ah = tr.decision_hash(), tr.arrival_hash()
        cr.decision_hashes.append(dh)
        cr.arrival_hashes.append(ah)
        if nw >= 2:
            cr.nontrivial_keys.append(core.derive(0, "%s|%s" % (merge.scenario_for(srcs, opts).digest(), ah)))
        cr.faults["schedule_perturbation"] += 1
        if plan.policy.startswith("starve:") and plan.policy != "starve:0":
            cr.faults["slow_source"] += 1
        vs = mergecheck.evaluate(res, expected, opts=opts)
        if ref is None:
            ref = (res.stdout, res.rc)
        else:
            if res.stdout != ref[0]:
                vs.append(("stdout_differs_across_schedules", mergecheck.show_diff(res.stdout, ref[0])))
            if res.rc != ref[1]:
                vs.append(("exit_status_differs_across_schedules", "exit %s vs %s" % (res.rc, ref[1])))
        for (cls, detail) in vs:
            rp = mergecheck.make_replay(srcs, opts, plan, "UTC", res, {
                "class": cls, "reference_stdout_b64": base64.b64encode(ref[0]).decode() if "across" in cls else None,
                "reference_rc": ref[1] if cls == "exit_status_differs_across_schedules" else None})
            cr.violations.append(Violation(cls, "family=%s bsz=%d schedule#%d policy=%s: %s" % (fam, bsz, k, plan.policy, detail), rp))
        if vs:
            break
    if True:
        cr.sample = {"family": fam, "argv": opts + [s.path for s in srcs], "sources": merge.describe(srcs),
                     "schedules": K, "expected_stdout_head": expected[:200].decode("latin-1")}
    return cr


def replay(rp):
    if rp.get("via") == "c01" or rp.get("kind") == "scenario":
        import c01
        return c01.replay(rp)
    return mergecheck.replay(rp)


def minimise(rp, cls):
    if rp.get("via") == "c01" or rp.get("kind") == "scenario":
        import c01
        return c01.minimise(rp, cls)
    return mergecheck.minimise(rp, cls)


RULE = ("one case = one generated multi-source scenario (families: many tiny sources / a source with more "
        "messages than the channel holds / zero-message sources / all-equal instants / compressed mix / early "
        "finisher; one case in a hundred: 130..300 sources at once, most of them with more messages than a channel holds"
        ") executed under K independently drawn schedules (policies: random with stickiness, PCT, "
        "round-robin, starved coordinator, starved worker, worker-first, lowest-id; select-pick random/lowest/"
        "highest). A run is non-trivial if it has >=2 live worker threads; distinct = distinct "
        "(scenario digest, coordinator arrival sequence) pairs, counted by hashing.")

ASSUMPTIONS = ["pre-emption only at intercepted operations (channel send/select, RwLock, spawn/exit, block read, temp-file points)",
               "crossbeam select fairness modelled as 'any ready receiver may win'",
               "sampling of schedules and inputs, not enumeration"]


def main(tier):
    n = 400 if tier == "quick" else 12000
    cap = 240 if tier == "quick" else 1500
    return engine.run_check(PROP, "c06", tier, n, cap, "exploration", RULE, ASSUMPTIONS)
