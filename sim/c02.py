"""C02 -- every message of a text log is printed exactly once, byte for byte.

Oracle over the history of simulated end-to-end runs: stdout == content from the first timestamped
line on (+ "\\n" if the file lacks a final newline); with --separator set to a marker absent from the
content, splitting stdout yields exactly the generated message list (no drop, repeat, split, merge).
Dimensions: boundary-targeting generator (line ends / timestamp starts at k*bsz-1, k*bsz, k*bsz+1),
every --blocksz 64..512 plus larger ones, plain and streamed forms, single- and multi-source runs,
continuation / blank / CRLF lines, NUL / CR / non-UTF-8 bytes, preamble lines; all under seeded
schedules (the printed message is shared with a worker that is concurrently dropping data).
"""
import base64

import core
import engine
import merge
import mergecheck
import tracecheck
from engine import Violation, CaseResult

PROP = "C02"
MARK = b"<#SEP#>"


def gen_case(rng):
    if rng.random() < 0.03:
        # a log of several codec blocks (bzip2 level 1 = 100 kB blocks; LZ4 64 KiB blocks ...): decoders hand data back in
        # pieces that do not line up with the read blocks
        import world
        bsz = rng.choice((4096, 16384, 65536))
        content, msgs = world.gen_big_text_log(rng, rng.choice((150_000, 260_000, 420_000)), line_len=rng.choice(((60, 300), (200, 1200))))
        kind = rng.choice(("bz2", "bz2", "gz", "xz", "lz4"))
        if kind == "bz2":
            stored, descr = world.to_bz2(content, 1), {"kind": "bz2", "level": 1}
        else:
            stored, descr = world.random_container(rng, kind, content, mtime=0, name="big.log")
        srcs = [merge.Source("big.log" + world.SUFFIX[kind], "text", msgs, stored, content, kind, descr)]
        opts = ["--color", "never", "--blocksz", str(bsz), "--tz-offset", "+00:00"]
        return bsz, srcs, opts, b"", 0.0
    r = rng.random()
    if r < 0.6:
        bsz = rng.randint(64, 512)
    elif r < 0.85:
        bsz = rng.choice((64, 65, 100, 127, 128, 129, 255, 256, 257, 1000, 1024, 4096))
    else:
        bsz = rng.choice((8192, 65536, 0xFFFFFF, 8095, 8096, 8097))
    n = rng.choice((1, 1, 1, 1, 2, 3))
    special = rng.choice((0.0, 0.0, 0.0, 0.2))
    srcs = merge.gen_sources(rng, n, bsz, max_msgs=rng.choice((3, 8, 20, 40)),
                             containers=("plain", "plain", "plain", "gz", "bz2", "xz", "lz4"),
                             allow_degenerate=False, special=special, tie_heavy=rng.random() < 0.5,
                             crlf_p=rng.choice((0.0, 0.0, 0.3, 1.0)), blank_p=rng.choice((0.0, 0.1, 0.5)),
                             preamble_p=0.25, first_line_max=None, notations=merge.NOTATIONS_WIDE)
    if rng.random() < 0.04:
        for s_ in srcs:
            if merge.inflate_message(rng, s_, "thousands_of_lines"):
                break
    opts = ["--color", "never", "--blocksz", str(bsz), "--tz-offset", "+00:00"]
    sep = b""
    if rng.random() < 0.4:
        sep = MARK
        opts += ["--separator", MARK.decode()]
    return bsz, srcs, opts, sep, special


def split_check(stdout, srcs, sep):
    """exactly-once via the separator marker: the multiset of printed messages == generated messages"""
    if not sep:
        return None
    parts = stdout.split(sep)
    tail = parts.pop()
    # a supplied final newline follows the last separator of a file; strip those single newlines
    got = []
    for k, p in enumerate(parts):
        if k > 0 and p.startswith(b"\n") and not _starts_message(p):
            p = p[1:]
        got.append(p)
    want = [m.data for (_, m, _) in merge.model_merge(srcs)]
    if tail not in (b"", b"\n"):
        return "bytes after the last separator: %r" % tail[:60]
    if sorted(got) != sorted(want):
        gs, ws = set(got), set(want)
        missing = [w[:50] for w in want if w not in gs][:3]
        extra = [g[:50] for g in got if g not in ws][:3]
        return "printed %d messages, generated %d; missing=%r extra=%r" % (len(got), len(want), missing, extra)
    return None


def _starts_message(p):
    return p[:1] in (b"[", b"{", b"(")


def run_growing_case(seed, i, tier):
    """a log that another process appends to while it is printed (the normal life of a log): the file as it was when the reader
    opened it ends in the middle of a line; some steps into the run the rest of that line and further messages are appended.
    What is printed must be the file as it was at the moment it was opened -- the old content (its cut line completed by the
    supplied newline) or, when the append came first, the new content -- never something in between."""
    import world
    rng = core.rng_for(seed, PROP, i)
    bsz = rng.choice((64, 100, 128, 256, 1000, 65536))
    p = world.TextLogParams(n_msgs=rng.randint(8, 60), src_letter=b"W", cont_p=0.2, body_len=(20, 120), bsz=bsz if bsz <= 1000 else 0,
                            notation=rng.choice((1, 1, 2, 6)), frac_digits=3)
    content, msgs, _ = world.gen_text_log(rng, p)
    k = rng.randint(max(4, len(msgs) // 2), len(msgs) - 1)          # the message whose first line is cut
    head = b"".join(m.data for m in msgs[:k])
    line_end = msgs[k].data.find(b"\n")
    cut = rng.randint(32, max(33, line_end - 1)) if line_end > 34 else len(msgs[k].data) - 1
    old = head + msgs[k].data[:cut]
    rest = msgs[k].data[cut:] + b"".join(m.data for m in msgs[k + 1:])
    if not merge.blockzero_safe(content, msgs, bsz) or not rest:
        return CaseResult()
    want_old = old + b"\n"
    want_new = content
    src = merge.Source("grow.log", "text", msgs[:k + 1], old, old)
    opts = ["--color", "never", "--blocksz", str(bsz), "--tz-offset", "+00:00"]
    prng = core.rng_for(seed, PROP, i, "plan")
    plan = core.random_plan(prng, 1, budget=mergecheck.step_budget([merge.Source("g", "text", msgs, content, content)], bsz) + 2000)
    plan.hashseed = rng.getrandbits(32)
    plan.append = (rng.randint(1, 30 + 14 * k), "grow.log", rest)
    _, res = mergecheck.run_once([src], opts, plan)
    cr = CaseResult()
    cr.runs = 1
    cr.steps = cr.steps_max = res.trace.steps
    cr.policies[plan.policy.split(":")[0]] += 1
    cr.faults["file_appended_to_while_read"] += 1
    cr.decision_hashes.append(res.trace.decision_hash())
    cr.arrival_hashes.append(res.trace.arrival_hash())
    cr.nontrivial_keys.append(core.derive(0, merge.scenario_for([src], opts).digest() + str(plan.append[0])))
    vs = mergecheck.evaluate(res, None, check_protocol=False)
    if not vs:
        if res.stdout == want_old:
            cr.probes["append_came_after_the_file_was_opened"] += 1
        elif res.stdout == want_new:
            cr.probes["append_came_before_the_file_was_opened"] += 1
        else:
            vs.append(("growing_file_neither_old_nor_new_content", "old content: " + mergecheck.show_diff(res.stdout, want_old) + "\n  new content: " + mergecheck.show_diff(res.stdout, want_new)))
    for (cls, detail) in vs:
        rp = mergecheck.make_replay([src], opts, plan, "UTC", res, {"class": cls, "no_model": True, "growing": True,
                                    "want_old_b64": base64.b64encode(want_old).decode(), "want_new_b64": base64.b64encode(want_new).decode()})
        cr.violations.append(Violation(cls, "bsz=%d append at step %d of %d bytes: %s" % (bsz, plan.append[0], len(rest), detail), rp))
    cr.sample = {"argv": opts + ["grow.log"], "append_at_step": plan.append[0], "appended_bytes": len(rest)}
    return cr


def run_case(seed, i, tier):
    if i % 25 == 7:
        return run_growing_case(seed, i, tier)
    rng = core.rng_for(seed, PROP, i)
    bsz, srcs, opts, sep, special = gen_case(rng)
    expected = merge.model_stdout(srcs, sep)
    K = 1 if tier == "quick" else 2
    cr = CaseResult()
    nw = mergecheck.n_workers(srcs)
    for k in range(K):
        prng = core.rng_for(seed, PROP, i, "plan", k)
        plan = core.random_plan(prng, nw, budget=mergecheck.step_budget(srcs, bsz))
        plan.hashseed = rng.getrandbits(32)
        _, res = mergecheck.run_once(srcs, opts, plan)
        tr = res.trace
        cr.runs += 1
        cr.steps += tr.steps
        cr.steps_max = max(cr.steps_max, tr.steps)
        cr.policies[plan.policy.split(":")[0]] += 1
        cr.probes.update(tracecheck.probes(tr))
        for s in srcs:
            cr.probes["container_" + s.container] += 1
            if s.plain and len(s.plain) > 3 * bsz:
                cr.probes["file_spans_3plus_blocks"] += 1
        if special:
            cr.probes["bodies_with_NUL_CR_nonUTF8"] += 1
        cr.faults["knob_blocksz"] += 1
        cr.decision_hashes.append(tr.decision_hash())
        cr.arrival_hashes.append(tr.arrival_hash())
        cr.nontrivial_keys.append(core.derive(0, merge.scenario_for(srcs, opts).digest() + tr.arrival_hash()))
        vs = mergecheck.evaluate(res, expected, check_protocol=False)
        if not vs:
            d = split_check(res.stdout, srcs, sep)
            if d:
                vs.append(("message_list_differs", d))
        for (cls, detail) in vs:
            rp = mergecheck.make_replay(srcs, opts, plan, "UTC", res, {"class": cls, "separator_b64": base64.b64encode(sep).decode()})
            cr.violations.append(Violation(cls, "bsz=%d sep=%r sources=%s: %s" % (bsz, sep, merge.describe(srcs), detail), rp))
        if vs:
            break
    cr.sample = {"argv": opts + [s.path for s in srcs], "sources": merge.describe(srcs),
                 "expected_stdout_head": expected[:160].decode("latin-1")}
    return cr


def replay(rp):
    if rp.get("growing"):
        srcs = mergecheck.sources_from_json(rp["sources"])
        plan = core.Plan.from_json(rp["plan"])
        if getattr(plan, "append", None):
            plan.append = (plan.append[0], plan.append[1], bytes(plan.append[2]) if not isinstance(plan.append[2], str) else bytes.fromhex(plan.append[2]))
        _, res = mergecheck.run_once(srcs, rp["opts"], plan)
        cl = set(c for (c, _) in mergecheck.evaluate(res, None, check_protocol=False))
        if not cl and res.stdout not in (base64.b64decode(rp["want_old_b64"]), base64.b64decode(rp["want_new_b64"])):
            cl.add("growing_file_neither_old_nor_new_content")
        return (rp.get("class") in cl) if rp.get("class") else bool(cl)
    return mergecheck.replay(rp)


def minimise(rp, cls):
    if rp.get("growing"):
        return rp
    return mergecheck.minimise(rp, cls)


RULE = ("one case = 1..3 generated text logs (boundary-targeted line lengths, continuation / blank / CRLF lines, "
        "optional NUL / CR / non-UTF-8 bytes, optional preamble, with/without final newline; plain/gz/bz2/xz/lz4) read "
        "with a seed-chosen --blocksz (64..512 uniformly, boundary values, large values) and optionally a --separator "
        "marker, under a seeded schedule; non-trivial = every run; distinct = (scenario digest, arrival sequence)")
ASSUMPTIONS = ["continuation lines contain no digits, so they cannot parse as a timestamp in any notation",
               "the first timestamped line lies inside block zero (outside that: known finding F-C12a, see C12)",
               "block sizes below 64 are not reachable through the binary; alignment coverage comes from shifting content"]


def main(tier):
    n = 3000 if tier == "quick" else 150000
    cap = 300 if tier == "quick" else 1500
    return engine.run_check(PROP, "c02", tier, n, cap, "exploration", RULE, ASSUMPTIONS)
