"""C07 -- malformed input cannot crash, hang, or disturb other sources.

Fault injection on the simulated disk: for every file kind x container a valid file is damaged by
truncation, byte flips, zero-fill, or replaced by random bytes, or stored under a mismatching name;
alone and beside 1..3 valid text sources, under seeded schedules.

Oracle: exit status in {0,1}; no panic / abort / fatal signal; the run ends within the step budget
and the wall cap (no deadlock, no livelock); the lines attributed (by -n) to each valid co-source
are exactly that source's lines, in order.
"""
import os

import core
import engine
import fixtures
import merge
import mergecheck
import tracecheck
import world
from build import REPO
from engine import Violation, CaseResult

PROP = "C07"

UTMP_FIXTURES = [
    "logs/Debian11/aarch64_ARM64/wtmp", "logs/NetBSD9.3/x86_64/wtmp", "logs/NetBSD9.3/x86_32/wtmp",
    "logs/OpenBSD7.2/x86_32/lastlog", "logs/OpenBSD7.4/x86_64/lastlog", "logs/FreeBSD14.0/x86_64/utx.lastlogin",
    "logs/NetBSD9.3/x86_64/lastlog", "logs/OpenBSD7.4/x86_64/utmp", "logs/OpenBSD7.2/x86_32/utmp",
    "logs/NetBSD9.3/x86_64/utmpx", "logs/NetBSD9.3/x86_32/utmpx", "logs/Debian11/armv6l_ARMv6/wtmp",
    "logs/Ubuntu16/x86_32/btmp", "logs/CentOS7/x86_64/btmp", "logs/OpenSUSE15/lastlog",
    "logs/Debian13/RISC-V/utmp", "logs/FreeBSD13.1/x86_64/utx.lastlogin", "logs/OpenBSD7.4/x86_64/wtmp",
]
_UTMP = {}


def utmp_fixture(rel):
    if rel not in _UTMP:
        p = os.path.join(REPO, rel)
        _UTMP[rel] = open(p, "rb").read() if os.path.exists(p) else None
    return _UTMP[rel]


SUFFIXES = (".log", ".log.gz", ".log.bz2", ".log.xz", ".log.lz4", ".tar", ".journal", ".journal.gz", ".evtx",
            ".evtx.xz", ".evtx.bz2", "wtmp", "utmp", "utmpx", "lastlog", "acct", "pacct", "btmp.gz", "wtmp.xz", ".txt", "")


def valid_base(rng):
    """-> (name, plain bytes, kind, container-encoded bytes)"""
    k = rng.choice(("text", "text", "text", "utmp", "utmp", "evtx", "evtx", "journal"))
    if k == "text" and rng.random() < 0.25:
        # stamps without a year: the reader walks such a file backwards first (damage at its head meets that walk)
        import c11
        content = c11.gen_source(rng, "f.log", b"F", 0, rng.choice((0, 1)), rng.choice((2, 5, 12))).plain
        base = "f.log"
    elif k == "text":
        nt = rng.choice((1, 1, 1, 2, 0, 6, 8))
        p = world.TextLogParams(n_msgs=rng.choice((rng.randint(1, 12), rng.randint(1, 12), 400)), src_letter=b"F", cont_p=0.3, notation=nt, frac_digits=3)
        content, _, _ = world.gen_text_log(rng, p)
        base = "f.log"
    elif k == "utmp":
        for _ in range(10):
            rel = rng.choice(UTMP_FIXTURES)
            content = utmp_fixture(rel)
            if content:
                break
        else:
            content = b"\x00" * 384
            rel = "x/utmp"
        base = "f_" + os.path.basename(rel)
    elif k == "evtx":
        which = rng.choice(("noevents", "noevents", "pnp"))
        content = fixtures.load(which)
        base = "f.evtx"
    else:
        content = fixtures.load("u22x3")
        # a journal prefix is already a damaged journal; keep runs cheap
        content = content[:rng.choice((4096, 65536, 300000, len(content)))]
        base = "f.journal"
    cont = rng.choice(("plain", "plain", "gz", "bz2", "xz", "lz4", "tar"))
    if len(content) > 2_000_000 and cont == "bz2":
        cont = "gz"
    if cont == "tar":
        stored = world.to_tar([(base, content, 1600000000)], rng.choice(("ustar", "gnu", "pax")))
        name = "f_arch.tar"
    else:
        stored, _ = world.random_container(rng, cont, content, 1600000000, base)
        name = base + world.SUFFIX[cont]
    return name, content, k, cont, stored


def offset_class(rng, n):
    """an offset drawn from the classes: magic / header / size-or-trailer field / payload / last byte"""
    if n <= 0:
        return 0
    c = rng.randrange(8)
    if c == 6:
        return rng.randrange(n // 4, max(n // 4 + 1, 3 * n // 4))      # well inside the payload
    if c == 7:
        return max(0, n - 1 - rng.randrange(0, min(n, 12000)))           # before an archive's trailing padding
    if c == 0:
        return rng.randrange(0, min(n, 6))
    if c == 1:
        return rng.randrange(0, min(n, 64))
    if c == 2:
        return max(0, n - 1 - rng.randrange(0, min(n, 16)))
    if c == 3:
        return n - 1
    if c == 4:
        return rng.randrange(0, min(n, 600))
    return rng.randrange(0, n)


def structured_tail(rng, stored, content, cont):
    """bytes that really do follow compressed streams in the wild: a second member (`cat a.gz b.gz`), the file twice,
    zero padding, or a stray little-endian length close to the real decoded length (the gz/lz4 readers take sizes from
    fixed places at the end / start of the file)"""
    R = len(content)
    style = rng.choice(("second_member", "second_member", "self_twice", "zero_pad", "le32", "le32", "pad_le32"))
    if style == "second_member" and cont in ("gz", "bz2", "xz", "lz4"):
        p = world.TextLogParams(n_msgs=rng.choice((1, 2, 5, 30, 200)), src_letter=b"G", cont_p=0.2)
        c2, _, _ = world.gen_text_log(rng, p)
        tail, _ = world.random_container(rng, cont, c2, 1600000000, "g.log")
        return stored + tail, {"tail": style, "second_plain_len": len(c2), "first_plain_len": R}
    if style == "self_twice":
        return stored + stored, {"tail": style}
    if style == "zero_pad":
        k = rng.choice((1, 3, 4, 8, 511, 512, 1024))
        return stored + b"\x00" * k, {"tail": style, "len": k}
    v = rng.choice((R + 1, R + rng.randint(1, 400), R + rng.randint(1, 60000), max(0, R - 1), 2 * R, R // 2, 0, 1, R)) & 0xFFFFFFFF
    pad = b"\x00" * rng.choice((0, 4, 12)) if style == "pad_le32" else b""
    return stored + pad + v.to_bytes(4, "little"), {"tail": "le32", "value": v, "plain_len": R, "pad": len(pad)}


TAR_FIELDS = (("name", 0, 100, "s"), ("mode", 100, 8, "n"), ("uid", 108, 8, "n"), ("gid", 116, 8, "n"), ("size", 124, 12, "n"),
              ("mtime", 136, 12, "n"), ("typeflag", 156, 1, "t"), ("linkname", 157, 100, "s"), ("magic", 257, 6, "s"),
              ("version", 263, 2, "s"), ("uname", 265, 32, "s"), ("gname", 297, 32, "s"), ("devmajor", 329, 8, "n"),
              ("devminor", 337, 8, "n"), ("prefix", 345, 155, "s"))


def _varint(v):
    out = bytearray()
    while True:
        b = v & 0x7F
        v >>= 7
        if v:
            out.append(b | 0x80)
        else:
            out.append(b)
            return bytes(out)


def field_fault(rng, cont, stored, content):
    """a header / trailer / index FIELD set to an extreme or inconsistent value, with the format's own integrity fields
    (tar header checksum, LZ4 descriptor checksum, xz index and footer CRC32) recomputed -- so the damage is not turned away
    by the first checksum test and reaches the code that uses the field. -> (bytes, descr) or None"""
    import struct
    import zlib
    R = len(content)
    if cont == "tar":
        b = bytearray(stored)
        heads = []
        off = 0
        while off + 512 <= len(b) and any(b[off:off + 512]):
            try:
                size = int(bytes(b[off + 124:off + 136]).strip(b"\x00 ") or b"0", 8)
            except ValueError:
                break
            heads.append(off)
            off += 512 + (size + 511) // 512 * 512
        if not heads:
            return None
        h = rng.choice(heads)
        (fname, fo, fl, kind) = rng.choice(TAR_FIELDS + (("size", 124, 12, "n"), ("mtime", 136, 12, "n"), ("size", 124, 12, "n"),
                                                     ("size", 124, 12, "n"), ("size", 124, 12, "n")))
        if kind == "n":
            val = rng.choice((b"\x80" + b"\xff" * (fl - 1), b"\xff" * fl, b"\x80" + b"\x00" * (fl - 9) + (2 ** 63).to_bytes(8, "big") if fl >= 9 else b"\xff" * fl,
                              b"\x80" + b"\x00" * (fl - 9) + (2 ** 63 - 1).to_bytes(8, "big") if fl >= 9 else b"\x80" * fl,
                              b"\x80" + b"\x00" * (fl - 9) + (8 * 10 ** 12 + rng.randrange(10 ** 12)).to_bytes(8, "big") if fl >= 9 else b"7" * fl,
                              b"\x80" + b"\x00" * (fl - 9) + (2 ** 62 + rng.randrange(2 ** 40)).to_bytes(8, "big") if fl >= 9 else b"7" * fl,
                              b"\x80" + b"\x00" * (fl - 9) + (2 ** rng.choice((44, 50, 56, 60))).to_bytes(8, "big") if fl >= 9 else b"7" * fl,
                              b"7" * (fl - 1) + b"\x00", b"9" * (fl - 1) + b"\x00", b" " * fl, b"\x00" * fl, b"-" + b"1" * (fl - 2) + b"\x00",
                              (b"%0*o" % (fl - 1, R + 1)) + b"\x00", (b"%0*o" % (fl - 1, max(0, R - 1))) + b"\x00", (b"%0*o" % (fl - 1, 2 * R + 512)) + b"\x00"))
        elif kind == "t":
            val = bytes([rng.choice(b"01234567xgLKSVMN\x00\xff ")])
        else:
            val = rng.choice((b"\x00" * fl, b"A" * fl, b"\xff" * fl, b"../" * (fl // 3) + b"." * (fl % 3), b"/" + b"a" * (fl - 1), bytes(rng.getrandbits(8) for _ in range(fl))))
        val = (val + b"\x00" * fl)[:fl]
        b[h + fo:h + fo + fl] = val
        b[h + 148:h + 156] = b" " * 8
        b[h + 148:h + 156] = b"%06o\x00 " % sum(b[h:h + 512])
        return bytes(b), {"field": "tar." + fname, "value": val[:16].hex(), "header_at": h, "checksum": "recomputed"}
    if cont == "gz" and len(stored) > 18:
        b = bytearray(stored)
        which = rng.choice(("isize", "isize", "crc32", "both"))
        if which in ("isize", "both"):
            v = rng.choice((0, 1, R + 1, max(0, R - 1), 2 * R, 0xFFFFFFFF, 0x7FFFFFFF, 0x80000000, R + 65536, 65535, 65536, 65537)) & 0xFFFFFFFF
            b[-4:] = struct.pack("<I", v)
        if which in ("crc32", "both"):
            b[-8:-4] = struct.pack("<I", rng.getrandbits(32))
        return bytes(b), {"field": "gz." + which, "isize": int.from_bytes(b[-4:], "little"), "plain_len": R}
    if cont == "lz4" and len(stored) > 7 and stored[:4] == b"\x04\x22\x4d\x18":
        flg, bd = stored[4], stored[5]
        dlen = 2 + (8 if flg & 0x08 else 0)
        rest = stored[4 + dlen + 1:]
        how = rng.choice(("content_size", "content_size", "block_max", "version", "reserved", "dict_id"))
        if how == "content_size":
            flg |= 0x08
            v = rng.choice((0, 1, R + 1, max(0, R - 1), 2 ** 63, 2 ** 64 - 1, 2 ** 40, 2 ** 32, R * 1000 + 7))
            desc = bytes([flg, bd]) + struct.pack("<Q", v)
        elif how == "block_max":
            desc = bytes([flg & ~0x08, (rng.choice((0, 1, 2, 3, 7)) << 4) | (bd & 0x8F)])
            v = desc[1]
        elif how == "version":
            desc = bytes([(flg & 0x37) | rng.choice((0x00, 0x80, 0xC0)), bd])
            v = desc[0]
        elif how == "reserved":
            desc = bytes([(flg & ~0x08) | 0x02, bd | rng.choice((0x01, 0x80))])
            v = desc[1]
        else:
            desc = bytes([(flg & ~0x08) | 0x01, bd]) + struct.pack("<I", rng.getrandbits(32))
            v = 0
        hc = (world.xxh32(desc) >> 8) & 0xFF
        return stored[:4] + desc + bytes([hc]) + rest, {"field": "lz4." + how, "value": v, "descriptor_checksum": "recomputed", "plain_len": R}
    if cont == "xz" and len(stored) > 32 and stored[-2:] == b"YZ" and rng.random() < 0.4:
        # block header (at 12): [size][flags][filter id][props size][LZMA2 dictionary size] ... [CRC32], CRC recomputed
        b = bytearray(stored)
        hs = (b[12] + 1) * 4
        how = rng.choice(("dict_size", "dict_size", "flags", "filter_id", "props_size", "stream_flags"))
        if how == "dict_size":
            b[16] = rng.choice((40, 41, 63, 255, 39, 0))
        elif how == "flags":
            b[13] = rng.choice((0x03, 0x40, 0x80, 0xC0, 0x3C))
        elif how == "filter_id":
            b[14] = rng.choice((0x00, 0x03, 0x04, 0x20, 0x22, 0x7F))
        elif how == "props_size":
            b[15] = rng.choice((0, 2, 5, 0x7F))
        else:
            b[7] = rng.choice((0x02, 0x03, 0x05, 0x0F, 0x10))
            b[8:12] = struct.pack("<I", zlib.crc32(bytes(b[6:8])) & 0xFFFFFFFF)
            b[-4:-2] = b[6:8]
            b[-12:-8] = struct.pack("<I", zlib.crc32(bytes(b[-8:-2])) & 0xFFFFFFFF)
        b[12 + hs - 4:12 + hs] = struct.pack("<I", zlib.crc32(bytes(b[12:12 + hs - 4])) & 0xFFFFFFFF)
        return bytes(b), {"field": "xz.block_header." + how, "crc": "recomputed", "plain_len": R}
    if cont == "xz" and len(stored) > 32 and stored[-2:] == b"YZ":
        # rebuild index + footer with another uncompressed / unpadded size for the (single) block
        bsz = (struct.unpack("<I", stored[-8:-4])[0] + 1) * 4
        idx_start = len(stored) - 12 - bsz
        idx = stored[idx_start:idx_start + bsz]
        if idx[0] != 0 or idx[1] != 1:
            return None
        # one record: two varints
        k = 2
        vals = []
        for _ in range(2):
            v = 0
            sh = 0
            while True:
                c = idx[k]
                k += 1
                v |= (c & 0x7F) << sh
                sh += 7
                if not c & 0x80:
                    break
            vals.append(v)
        which = rng.choice(("uncompressed", "uncompressed", "unpadded", "records"))
        nrec = 1
        if which == "uncompressed":
            vals[1] = rng.choice((0, 1, R + 1, max(0, R - 1), 2 * R, 2 ** 40, 2 ** 62, 65536, R + 65536))
        elif which == "unpadded":
            vals[0] = rng.choice((5, vals[0] + 4, max(5, vals[0] - 4), 2 ** 40))
        else:
            nrec = rng.choice((0, 2, 2 ** 31))
        body = b"\x00" + _varint(nrec) + _varint(vals[0]) + _varint(vals[1])
        body += b"\x00" * (-len(body) % 4)
        body += struct.pack("<I", zlib.crc32(body) & 0xFFFFFFFF)
        flags = stored[-4:-2]
        back = struct.pack("<I", len(body) // 4 - 1)
        footer = struct.pack("<I", zlib.crc32(back + flags) & 0xFFFFFFFF) + back + flags + b"YZ"
        return stored[:idx_start] + body + footer, {"field": "xz.index." + which, "values": vals, "records": nrec, "crc": "recomputed", "plain_len": R}
    return None


def inject(rng, name, stored, content=None, cont=None):
    """-> (name, damaged bytes, fault descr)"""
    f = rng.choice(("truncate", "truncate", "flip", "flip", "multi_flip", "zero_fill", "random_bytes", "wrong_name",
                    "garbage_tail", "structured_tail", "structured_tail", "field", "field", "field", "none"))
    n = len(stored)
    if f == "field":
        r = field_fault(rng, cont, stored, content) if content is not None and cont in ("tar", "gz", "lz4", "xz") else None
        if r is None:
            f = "flip"
        else:
            r[1].update({"fault": "field_with_valid_checksum", "of": n})
            return name, r[0], r[1]
    if f == "structured_tail":
        if content is None:
            f = "garbage_tail"
        else:
            data, d = structured_tail(rng, stored, content, cont)
            d.update({"fault": f, "of": n})
            return name, data, d
    if f == "truncate":
        at = offset_class(rng, n)
        if rng.random() < 0.1:
            at = min(n, rng.choice((8095, 8096, 8097, 65536)))
        return name, stored[:at], {"fault": f, "at": at, "of": n}
    if f == "flip":
        at = offset_class(rng, n)
        b = bytearray(stored)
        if n:
            b[at] ^= rng.choice((0xFF, 0x01, 0x80, 0x10))
        return name, bytes(b), {"fault": f, "at": at, "of": n}
    if f == "multi_flip":
        b = bytearray(stored)
        ats = []
        for _ in range(rng.randint(2, 8)):
            if n:
                at = offset_class(rng, n)
                b[at] = rng.randrange(256)
                ats.append(at)
        return name, bytes(b), {"fault": f, "at": ats, "of": n}
    if f == "zero_fill":
        b = bytearray(stored)
        if n:
            at = offset_class(rng, n)
            ln = rng.choice((1, 4, 16, 512, n))
            for i in range(at, min(n, at + ln)):
                b[i] = 0
            return name, bytes(b), {"fault": f, "at": at, "len": ln, "of": n}
        return name, bytes(b), {"fault": f, "of": n}
    if f == "random_bytes":
        # (sizes incl. the edges of the reader's size classes: 8096 is where the block-zero thresholds change, 65536 the default block)
        ln = rng.choice((0, 1, 5, 6, 7, 63, 64, 65, 200, 4096, 70000, 8095, 8096, 8097, 65535, 65536, 65537))
        style = rng.randrange(3)
        if style == 0:
            data = bytes(rng.getrandbits(8) for _ in range(min(ln, 5000))) * (1 if ln <= 5000 else ln // 5000)
        elif style == 1:
            data = bytes([rng.choice((0, 0xFF, 0x0A, 0x41))]) * ln
        else:
            data = (stored[:8] + bytes(rng.getrandbits(8) for _ in range(min(ln, 3000))))[:max(ln, 0)]
        sfx = rng.choice(SUFFIXES)
        nm = ("r" + sfx) if sfx.startswith(".") or sfx == "" else ("r_" + sfx)
        return nm, data, {"fault": f, "len": len(data), "name": nm}
    if f == "wrong_name":
        sfx = rng.choice(SUFFIXES)
        nm = ("w" + sfx) if sfx.startswith(".") or sfx == "" else ("w_" + sfx)
        return nm, stored, {"fault": f, "was": name, "name": nm}
    if f == "garbage_tail":
        tail = bytes(rng.getrandbits(8) for _ in range(rng.choice((1, 8, 300))))
        return name, stored + tail, {"fault": f, "tail": len(tail), "of": n}
    return name, stored, {"fault": "none"}


def co_source_lines(src):
    out = []
    pref = src.path.encode() + b":"
    for m in src.msgs:
        d = m.data
        parts = d.split(b"\n")
        if d.endswith(b"\n"):
            parts = parts[:-1]
        for ln in parts:
            out.append(pref + ln)
    return out


def evaluate(res, valids):
    v = []
    tr = res.trace
    if res.timed_out:
        return [("hang_wall_clock", "run did not end within the wall-clock cap (twice)")]
    if res.rc == 99:
        return [("deadlock", "no enabled thread: %s" % (tr.z,))]
    if res.rc in (98, 96):
        return [("hang_step_budget", "step budget exceeded: %s" % (tr.z,))]
    if res.rc == 95:
        raise RuntimeError("harness error reported by s4_verif_rt: %r" % res.stderr[-500:])
    if b"memory allocation of" in res.stderr and res.rc not in (0, 1):
        return [("abort_huge_allocation", "exit status %s under a 3 GiB address-space limit; stderr tail: %r" % (res.rc, res.stderr[-300:]))]
    if res.rc not in (0, 1) or b"panicked at" in res.stderr:
        return [("crash", "exit status %s; stderr tail: %r" % (res.rc, res.stderr[-700:]))]
    # an accounting record is printed as "<fields>\n\0" (known finding F-C08b, checked by C08): that NUL is the first
    # byte of whatever is printed next and is not a disturbance of the co-source
    lines = [l.lstrip(b"\x00") for l in res.stdout.split(b"\n")]
    for s in valids:
        want = co_source_lines(s)
        pref = s.path.encode() + b":"
        got = [l for l in lines if l.startswith(pref)]
        if got != want:
            k = 0
            while k < min(len(got), len(want)) and got[k] == want[k]:
                k += 1
            v.append(("co_source_disturbed", "source %s: %d lines printed, %d expected; first difference at line %d: got %r want %r" % (
                s.path, len(got), len(want), k, got[k][:80] if k < len(got) else None, want[k][:80] if k < len(want) else None)))
    return v


def valid_member_name(name, kind):
    return {"text": "f.log", "evtx": "f.evtx", "journal": "f.journal", "utmp": "wtmp"}[kind]


def build_case(rng):
    name, content, kind, cont, stored = valid_base(rng)
    if cont != "plain" and rng.random() < 0.3:
        # damage the content, then store it in a well-formed container: the decoder succeeds and the reader behind it
        # (through a temporary copy for journals and event logs) meets the damage
        _, bad, fdesc = inject(rng, name, content)
        if fdesc["fault"] in ("wrong_name", "random_bytes", "none"):
            bad = content[:rng.randrange(len(content) + 1)]
            fdesc = {"fault": "truncate", "at": len(bad), "of": len(content)}
        fdesc["fault"] = "content_" + fdesc["fault"] + "_inside_valid_container"
        if cont == "tar":
            # the member keeps a name of its kind
            data = world.to_tar([(valid_member_name(name, kind), bad, 1600000000)], rng.choice(("ustar", "gnu", "pax")))
        else:
            data, _ = world.random_container(rng, cont, bad, 1600000000, "x")
        fname = name
    elif kind == "text" and rng.random() < 0.12:
        # a text log in which one stamp (or every stamp) carries a character that only looks like what belongs there: a typographic
        # dash or minus for the zone's sign, a non-breaking or thin space, fullwidth digits -- input a word processor or a web
        # form leaves behind. Such a line may or may not be taken for a message; it must not bring the program down
        import re
        look = ("\u2013", "\u2212", "\u2012", "\u2014", "\uff0d", "\u00ad", "\u00b1", "\uff0b")
        txt = content
        how = rng.choice(("sign", "sign", "space", "digit"))
        if how == "sign":
            rx = re.compile(rb"(?<=[ T\d])[-+](?=\d\d:?\d\d)")
            rep = rng.choice(look).encode("utf-8")
        elif how == "space":
            rx = re.compile(rb"(?<=\d) (?=\d\d:\d\d)")
            rep = rng.choice(("\u00a0", "\u2009", "\u3000")).encode("utf-8")
        else:
            rx = re.compile(rb"(?<=:)\d(?=\d[.\] ])")
            rep = rng.choice(("\uff10", "\u0660", "\u00b2")).encode("utf-8")
        bad = rx.sub(rep, txt, count=rng.choice((1, 1, 0)))
        fdesc = {"fault": "look_alike_character_in_stamp", "how": how, "char": rep.hex(), "changed": bad != txt}
        if cont == "tar":
            data = world.to_tar([(valid_member_name(name, kind), bad, 1600000000)], rng.choice(("ustar", "gnu", "pax")))
        elif cont == "plain":
            data = bad
        else:
            data, _ = world.random_container(rng, cont, bad, 1600000000, "x")
        fname = name
    else:
        fname, data, fdesc = inject(rng, name, stored, content, cont)
    fdesc.update({"base_kind": kind, "base_container": cont})
    nvalid = rng.choice((0, 0, 1, 1, 2, 3))
    valids = merge.gen_sources(rng, nvalid, 65536, max_msgs=8, allow_degenerate=False, letter_base=6) if nvalid else []
    for k, s in enumerate(valids):
        s.path = "v%d.log" % k
    files = [core.FileSpec(s.path, s.stored, 1600000000) for s in valids]
    pos = rng.randrange(len(files) + 1)
    files.insert(pos, core.FileSpec(fname, data, 1600000000))
    argv = ["--color", "never", "-n", "--tz-offset", "+00:00"] + [f.path for f in files]
    if rng.random() < 0.2:
        argv.insert(2, "--summary")
    if rng.random() < 0.2:
        argv[2:2] = ["--blocksz", str(rng.choice((64, 100, 512, 4096)))]
        # co-sources must stay inside block zero for small blocks
        bs = int(argv[3])
        if any(not merge.blockzero_safe(s.plain, s.msgs, bs) for s in valids):
            del argv[2:4]
    return core.Scenario(files, argv, None, "UTC"), valids, fdesc


_ENUM = []


def enum_bases():
    """small valid files whose every truncation point and every single-byte corruption is enumerated"""
    r = core.random.Random(7)
    p = world.TextLogParams(n_msgs=3, src_letter=b"E", cont_p=0.0, body_len=(0, 12))
    content, _, _ = world.gen_text_log(r, p)
    bases = [("e.log", content), ("e.log.gz", world.to_gz(content, level=6, mtime=1600000000, name="e.log")),
             ("e.log.bz2", world.to_bz2(content, 9)), ("e.log.xz", world.to_xz(content, 6)),
             ("e.log.lz4", world.to_lz4(content, None, 4, 64, True, True, True, True)),
             ("e.tar", world.to_tar([("e.log", content, 1600000000)], "ustar")[:1536 + 512])]
    for rel in UTMP_FIXTURES:
        d = utmp_fixture(rel)
        if d and len(d) <= 2400:
            bases.append(("u%d_%s" % (len(bases), os.path.basename(rel)), d))
    ne = fixtures.load("noevents")
    bases.append(("e.evtx", ne))
    return bases


def enum_list():
    """(name, data, fault descr) for the enumerated fault space"""
    if _ENUM:
        return _ENUM
    for (name, data) in enum_bases():
        n = len(data)
        big = n > 5000
        offs = list(range(n)) if not big else (list(range(0, 4200)) + list(range(4200, n, 997)) + list(range(n - 64, n)))
        for at in ([x for x in offs] + [n]):
            if not big or at < 4300 or at % 4096 < 2 or at > n - 64:
                _ENUM.append((name, data[:at], {"fault": "truncate", "at": at, "of": n, "base_kind": name, "base_container": "enum"}))
        for at in offs:
            for val in (0x7F, 0x80, 0xFF, 0x00):
                if data[at] == val:
                    continue
                b = bytearray(data)
                b[at] = val
                _ENUM.append((name, bytes(b), {"fault": "flip", "at": at, "val": val, "of": n, "base_kind": name, "base_container": "enum"}))
    return _ENUM


def timefield_case(rng):
    """accounting files: one byte of one record's time field set to an extreme value (damaged accounting file)"""
    import layouts
    name = rng.choice(sorted(layouts.LAYOUTS))
    size, so, ss, uo, us, fields, fname, *_ = layouts.LAYOUTS[name]
    n = rng.randint(2, 6)
    raw = bytearray()
    for i in range(n):
        raw += layouts.make_record(name, 1_600_000_000 + i * 3600, 0, {f: (b"v%02d" % i) for (f, _, _) in fields})
    k = rng.randrange(n)
    ut_type_off = layouts.LAYOUTS[name][8]
    how = rng.choice(("time", "small_value", "type_field" if ut_type_off is not None else "small_value", "type_field" if ut_type_off is not None else "time"))
    if how == "time":
        fld = rng.choice(("sec", "sec", "usec")) if uo is not None else "sec"
        off, sz = (so, ss) if fld == "sec" else (uo, us)
        at = k * size + off + rng.randrange(sz)
        val = rng.choice((0x7F, 0x80, 0xFF))
        raw[at] = val
    elif how == "type_field":
        # the record-type field set to values at and just past the ends of the table of known types
        fld = "ut_type"
        at = k * size + ut_type_off
        val = rng.choice(list(range(0, 20)) + [9, 10, 11, 12, 12, 13, 13, 14] + [0x7F, 0x80, 0xFF, 0x100, 0x7FFF, 0xFFFF])
        raw[at:at + 2] = (val & 0xFFFF).to_bytes(2, "little")
    else:
        # any byte of the record set to a small number (enumerations, counts, flags live in such bytes)
        fld = "byte"
        at = k * size + rng.randrange(size)
        val = rng.randrange(0, 40)
        raw[at] = val
    files = [core.FileSpec(fname, bytes(raw), 1600000000)]
    valids = []
    if rng.random() < 0.5:
        valids = merge.gen_sources(rng, 1, 65536, max_msgs=6, allow_degenerate=False, letter_base=6)
        valids[0].path = "v0.log"
        files.insert(rng.randrange(2), core.FileSpec("v0.log", valids[0].stored, 1600000000))
    argv = ["--color", "never", "-n", "--tz-offset", "+00:00"] + [f.path for f in files]
    return core.Scenario(files, argv, None, "UTC"), valids, {"fault": "record_field_" + how, "layout": name, "record": k, "field": fld,
                                                            "at": at, "val": val, "base_kind": "utmp", "base_container": "plain"}


def field_case(rng):
    """a checksum-consistent field corruption (field_fault) of a tar / gz / lz4 / xz around valid content of every kind"""
    for _ in range(20):
        name, content, kind, cont, stored = valid_base(rng)
        if cont == "plain":
            continue
        if cont != "tar" and rng.random() < 0.4:
            continue      # (archives twice as often: their headers hold the most fields that size something)
        if cont != "tar" and (cont == "bz2" or rng.random() < 0.35):
            # bytes after a valid stream: second member, the file twice, padding, a stray length
            data, fdesc = structured_tail(rng, stored, content, cont)
            fdesc.update({"fault": "structured_tail", "of": len(stored), "base_kind": kind, "base_container": cont})
        else:
            r = field_fault(rng, cont, stored, content)
            if r is None:
                continue
            data, fdesc = r
            fdesc.update({"fault": "field_with_valid_checksum", "of": len(stored), "base_kind": kind, "base_container": cont})
        files = [core.FileSpec(name, data, 1600000000)]
        valids = []
        if rng.random() < 0.4:
            valids = merge.gen_sources(rng, 1, 65536, max_msgs=6, allow_degenerate=False, letter_base=6)
            valids[0].path = "v0.log"
            files.insert(rng.randrange(2), core.FileSpec("v0.log", valids[0].stored, 1600000000))
        argv = ["--color", "never", "-n", "--tz-offset", "+00:00"] + [f.path for f in files]
        return core.Scenario(files, argv, None, "UTC"), valids, fdesc
    return build_case(rng)


def evtx_record_case(rng):
    """the shipped event log with 1..3 bytes replaced inside its record area (the evtx reader does not verify chunk
    checksums, so such damage reaches the binary-XML decoder), plain or inside a container"""
    base = bytearray(fixtures.load("pnp"))
    used = 0x1000 + 3 * 0x10000
    bytes_ = []
    for _ in range(rng.choice((1, 1, 1, 2, 3))):
        at = rng.randrange(0x1000, used) if rng.random() < 0.8 else rng.randrange(0, 0x1000)
        val = rng.choice((0x00, 0x01, 0x7F, 0x80, 0xFF, base[at] ^ 0x80, base[at] ^ 0x01, rng.getrandbits(8)))
        base[at] = val
        bytes_.append([at, val])
    cont = rng.choice(("plain", "plain", "plain", "gz", "lz4", "tar"))
    if cont == "plain":
        name, data = "f.evtx", bytes(base)
    elif cont == "tar":
        name, data = "f_arch.tar", world.to_tar([("f.evtx", bytes(base), 1600000000)], "ustar")
    else:
        data, _ = world.random_container(rng, cont, bytes(base), 1600000000, "f.evtx")
        name = "f.evtx" + world.SUFFIX[cont]
    files = [core.FileSpec(name, data, 1600000000)]
    valids = []
    if rng.random() < 0.3:
        valids = merge.gen_sources(rng, 1, 65536, max_msgs=6, allow_degenerate=False, letter_base=6)
        valids[0].path = "v0.log"
        files.insert(rng.randrange(2), core.FileSpec("v0.log", valids[0].stored, 1600000000))
    argv = ["--color", "never", "-n", "--tz-offset", "+00:00"] + [f.path for f in files]
    return core.Scenario(files, argv, None, "UTC"), valids, {"fault": "evtx_record_bytes", "bytes": bytes_, "base_kind": "evtx", "base_container": cont}


def sweep_case(rng, j, tier):
    """fixed-record files: one byte set to an extreme value (time fields, type fields, sizes ...)"""
    L = enum_list()
    if tier == "quick":
        name, data, fdesc = L[rng.randrange(len(L))]
    else:
        name, data, fdesc = L[j % len(L)]
    files = [core.FileSpec(name, data, 1600000000)]
    valids = []
    if rng.random() < 0.3:
        valids = merge.gen_sources(rng, 1, 65536, max_msgs=6, allow_degenerate=False, letter_base=6)
        valids[0].path = "v0.log"
        files.insert(rng.randrange(2), core.FileSpec("v0.log", valids[0].stored, 1600000000))
    argv = ["--color", "never", "-n", "--tz-offset", "+00:00"] + [f.path for f in files]
    return core.Scenario(files, argv, None, "UTC"), valids, dict(fdesc)


def run_case(seed, i, tier):
    core.ADDRESS_SPACE_LIMIT = 3 << 30       # an allocation of gigabytes (a damaged length field taken at its word) aborts the run
    rng = core.rng_for(seed, PROP, i)
    cr = CaseResult()
    if i % 8 == 7:
        scn, valids, fdesc = timefield_case(rng)
    elif i % 16 == 11:
        scn, valids, fdesc = evtx_record_case(rng)
    elif i % 8 == 3:
        scn, valids, fdesc = field_case(rng)
    elif i % 2 == 1:
        scn, valids, fdesc = sweep_case(rng, i // 2, tier)
    else:
        scn, valids, fdesc = build_case(rng)
    K = 1 if tier == "quick" else 2
    for k in range(K):
        prng = core.rng_for(seed, PROP, i, "plan", k)
        plan = core.random_plan(prng, len(scn.files), budget=3_000_000)
        plan.hashseed = rng.getrandbits(32)
        res = core.execute(scn, plan, wall_cap=20.0, retry_cap=30.0)     # (runs of this check take well under a second)
        tr = res.trace
        cr.runs += 1
        cr.steps += tr.steps
        cr.steps_max = max(cr.steps_max, tr.steps)
        cr.policies[plan.policy.split(":")[0]] += 1
        cr.faults[fdesc["fault"]] += 1
        cr.probes["base_" + fdesc["base_kind"] + "_" + fdesc["base_container"]] += 1
        if valids:
            cr.probes["beside_valid_sources"] += 1
        cr.decision_hashes.append(tr.decision_hash())
        cr.arrival_hashes.append(tr.arrival_hash())
        if fdesc["fault"] != "none":
            cr.nontrivial_keys.append(core.derive(0, "%s|%s" % (scn.digest(), tr.arrival_hash())))
        vs = evaluate(res, valids)
        for (cls, detail) in vs:
            rp = {"scenario": scn.to_json(), "plan": plan.as_replay(tr).to_json(), "class": cls, "fault": fdesc,
                  "valids": mergecheck.sources_to_json(valids)}
            cr.violations.append(Violation(cls, "fault=%s argv=%s: %s" % (fdesc, scn.argv, detail), rp, known=known_for(cls, fdesc)))
        if vs:
            break
    if True:
        cr.sample = {"argv": scn.argv, "fault": fdesc, "files": [(f.path, len(f.data)) for f in scn.files]}
    return cr


KNOWN = {}


def known_for(cls, fdesc):
    """an open known finding covers this violation only if class AND the damaged file's kind match its signature"""
    if not KNOWN:
        for kf in engine.load_known(PROP):
            if kf["status"] == "open":
                KNOWN[kf["id"]] = kf
        KNOWN.setdefault("_", None)
    for kid, kf in KNOWN.items():
        if kf and cls in kf["signature"].get("classes", []) and fdesc.get("base_kind") in kf["signature"].get("base_kinds", []):
            return kid
    return None


def classes_of(rp):
    core.ADDRESS_SPACE_LIMIT = 3 << 30
    if rp.get("fixture_flip"):
        # a shipped file with single bytes replaced (kept out of the replay document: the file is a megabyte)
        ff = rp["fixture_flip"]
        b = bytearray(fixtures.load(ff["fixture"]))
        for (at, val) in ff["bytes"]:
            b[at] = val
        scn = core.Scenario([core.FileSpec(ff["name"], bytes(b), 1600000000)], ["--color", "never", "-n", "--tz-offset", "+00:00", ff["name"]], None, "UTC")
        res = core.execute(scn, core.Plan(seed=1, policy="lowest"))
        return set(c for (c, _) in evaluate(res, []))
    scn = core.Scenario.from_json(rp["scenario"])
    plan = core.Plan.from_json(rp["plan"])
    res = core.execute(scn, plan)
    return set(c for (c, _) in evaluate(res, mergecheck.sources_from_json(rp.get("valids", []))))


def replay(rp):
    cl = classes_of(rp)
    return (rp.get("class") in cl) if rp.get("class") else bool(cl)


def minimise(rp, cls):
    """drop co-sources, then shorten the schedule"""
    import json
    cur = json.loads(json.dumps(rp))
    runs = 0
    vpaths = [v["path"] for v in cur.get("valids", [])]
    for vp in vpaths:
        if cls == "co_source_disturbed":
            break
        cand = json.loads(json.dumps(cur))
        cand["scenario"]["files"] = [f for f in cand["scenario"]["files"] if f["path"] != vp]
        cand["scenario"]["argv"] = [a for a in cand["scenario"]["argv"] if a != vp]
        cand["valids"] = [v for v in cand["valids"] if v["path"] != vp]
        runs += 1
        if core.budget_ok() and cls in classes_of(cand):
            cur = cand
    ch = cur["plan"].get("choices") or []
    lo, hi = 0, len(ch)
    while lo < hi and runs < 40:
        mid = (lo + hi) // 2
        cand = json.loads(json.dumps(cur))
        cand["plan"]["choices"] = ch[:mid]
        runs += 1
        if core.budget_ok() and cls in classes_of(cand):
            hi = mid
        else:
            lo = mid + 1
    cand = json.loads(json.dumps(cur))
    cand["plan"]["choices"] = ch[:hi]
    if core.budget_ok() and cls in classes_of(cand):
        cur = cand
    return cur


RULE = ("one case = one damaged file (base: generated text, shipped utmp-family file, shipped evtx, shipped journal "
        "prefix; container plain/gz/bz2/xz/lz4/tar; fault: truncation / single flip / multi flip / zero-fill at an "
        "offset class (magic, header, trailer, payload, last byte), random bytes of assorted lengths under every "
        "suffix, valid content under a mismatching name, garbage tail) alone or beside 1..3 valid text sources; every "
        "second case is drawn (quick) or enumerated (thorough) from the complete list of truncation points and "
        "single-byte corruptions (0x00/0x7F/0x80/0xFF at every offset) of small valid files of each kind; all under "
        "a seeded schedule. non-trivial = a fault was injected; distinct = (scenario digest, arrival sequence)")
ASSUMPTIONS = ["read EIO/EINTR, ENOSPC and EPIPE are not injected (no property promises anything under them)",
               "valid co-sources are generated text logs attributed with -n",
               "journal / evtx / utmp bases are the files shipped in /repo/logs"]


def main(tier):
    n = 4000 if tier == "quick" else 2 * len(enum_list()) + 20000
    cap = 500 if tier == "quick" else 1500
    return engine.run_check(PROP, "c07", tier, n, cap, "fault_enumeration", RULE, ASSUMPTIONS)
