"""C13 -- prepended fields, separators and colour are pure decoration.

Model oracle: for generated text sources the decorated output is predicted byte for byte
(file field, then datetime field, each followed by the prepend separator, on every line of every
message; the message separator after every message; aligned names padded to the widest *printed*
name by terminal width; datetime = the message's instant in the requested strftime format and
zone). With --color always the same bytes must remain after deleting the SGR escape sequences.
For accounting / evtx / journal sources (shipped files) the oracle is metamorphic: deleting the two
fields from every line and the separator after each message must leave the undecorated run, with
the fields in the same order and the datetime field matching the requested format.
"""
import base64
import os
import re

import core
import decor
import engine
import fixtures
import merge
import mergecheck
import world
from c07 import UTMP_FIXTURES, utmp_fixture
from engine import Violation, CaseResult

PROP = "C13"

NAMES = ("a.log", "bb.log", "a_much_longer_name_than_the_others.log", "x y.log", "é.log", "日本語.log", "Z.LOG", "n", "m.txt",
         "disk%used.log", "App%4Operational.log", "100%.log", "back\\slash{0}.log")     # (names are data, never a format)
TZ_LOCAL = (("UTC", 0), ("XYZ5", -300), ("<+0545>-5:45", 345), ("ABC-9", 540), ("<-0330>3:30", -210))
TZ_ARG = (("+05:30", 330), ("-0800", -480), ("+09", 540), ("+00:00", 0), ("-03:30", -210), ("Z", 0), ("+1400", 840))
FORMATS = (None, None, "%Y-%m-%d %H:%M:%S", "%s", "%Y%m%dT%H%M%S%.6f%:z", "%F %T%.3f %z", "%a %b %e %I:%M:%S %p %y (%j)",
           "[%H|%M|%S|%9f]", "%D %Z", "%%Y=%Y %3f %6f %f")
PSEPS = (":", ":", " ", " | ", "", "::", "\t", "→")
SEPS = ("", "", "", "---\\n", "\\0", "\\t|\\t", "\\\\", "\\e\\a\\b\\f\\v\\r\\n", "<SEP>", "ü")


def gen_options(rng):
    file_mode = rng.choice((None, "name", "name", "path", "path"))
    align = rng.random() < 0.5 and file_mode is not None     # -w requires -n or -p (clap)
    dt_kind = rng.choice((None, "u", "l", "z", "z", "d_only"))
    fmt = rng.choice(FORMATS)
    psep = rng.choice(PSEPS)
    sep = rng.choice(SEPS)
    # "auto" and no option at all (the default is auto): whether escapes are written then is not this property's
    # business -- what remains after deleting them must be the undecorated output either way
    colour = rng.choice(("never", "never", "never", "always", "always", "auto", "default"))
    tz_env, tz_env_off = rng.choice(TZ_LOCAL)
    argv = ["--color", colour] if colour != "default" else []
    dt_off = None
    if file_mode == "name":
        argv.append("-n")
    elif file_mode == "path":
        argv.append("-p")
    if align:
        argv.append("-w")
    if dt_kind == "u":
        argv.append("-u")
        dt_off = 0
    elif dt_kind == "l":
        argv.append("-l")
        dt_off = tz_env_off
    elif dt_kind == "z":
        spelling, dt_off = rng.choice(TZ_ARG)
        argv.append("--prepend-tz=" + spelling)
    elif dt_kind == "d_only":
        # -d without a zone option: the local system zone is used
        if fmt is None:
            fmt = "%Y%m%dT%H%M%S%.3f%z"
        dt_off = tz_env_off
    if fmt is not None and dt_kind is not None:
        argv += ["-d", fmt]
    else:
        fmt = None
    if psep != ":":
        argv.append("--prepend-separator=" + psep)
    if sep:
        argv.append("--separator=" + sep)
    dec = decor.Decoration(file_mode, align, dt_off, fmt, psep, sep)
    return argv, dec, colour, tz_env


def text_case(rng, bsz=65536):
    n = rng.choice((1, 2, 2, 3, 4))
    if bsz != 65536:
        # small read blocks: lines (and the timestamp inside them) reach the printer in several parts
        srcs = merge.gen_sources(rng, n, bsz, max_msgs=rng.choice((2, 6, 15)), containers=("plain", "plain", "gz"),
                                 allow_degenerate=False, tie_heavy=True, blank_p=0.2, first_line_max=min(60, bsz - 4), safe_sizes=(bsz,))
    else:
        srcs = merge.gen_sources(rng, n, 65536, max_msgs=rng.choice((2, 6, 15)), containers=("plain", "plain", "gz"),
                                 allow_degenerate=False, tie_heavy=True, blank_p=0.2)
    if bsz == 65536 and rng.random() < 0.3:
        # one message per source grows beyond the printers' staging buffer (as one long line, or as many lines)
        for s_ in srcs:
            if rng.random() < 0.7:
                merge.inflate_message(rng, s_)
    names = rng.sample(NAMES, n)
    for s, nm in zip(srcs, names):
        ext = world.SUFFIX[s.container]
        s.path = (rng.choice(("", "", "d/", "d/e/")) + nm + ext)
    if len(srcs) >= 2 and rng.random() < 0.25:
        # the same base name in two directories (name and path prepends then differ in more than width)
        a, b = rng.sample(range(len(srcs)), 2)
        ext = world.SUFFIX[srcs[a].container]
        if world.SUFFIX[srcs[b].container] == ext:
            srcs[a].path, srcs[b].path = "p/same" + ext, "q/r/same" + ext
    # optionally a source that prints nothing (its name must not influence the aligned width)
    if rng.random() < 0.3:
        d = b"no timestamp in this file\n"
        srcs.insert(rng.randrange(len(srcs) + 1),
                    merge.Source("the_longest_name_of_all_but_nothing_is_printed_from_it.log", "notimestamp", [], d, d))
    return srcs


def fixture_case(rng):
    """-> (kind, file name, bytes, instants of the messages in print order or None when unknown)"""
    k = rng.choice(("utmp", "utmp_generated", "evtx", "journal"))
    if k == "utmp":
        data = None
        for _ in range(10):
            rel = rng.choice(UTMP_FIXTURES)
            data = utmp_fixture(rel)
            if data:
                break
        return "utmp", os.path.basename(rel), data, None
    if k == "utmp_generated":
        import c08
        import layouts
        lay = rng.choice(sorted(layouts.LAYOUTS))
        raw, recs, _ = c08.gen_records(rng, lay, rng.randint(1, 8))
        order = c08.expected_order(recs, None, None)
        return "utmp", layouts.LAYOUTS[lay][6], raw, [r["sec"] * 1_000_000_000 + r["usec"] * 1000 for r in order]
    if k == "evtx":
        import c10
        recs = sorted(c10.dump("pnp"), key=lambda r: (r[2], r[0]))
        return "evtx", "p.evtx", fixtures.load("pnp"), [t for (_, _, t) in recs]
    import c09
    jn = rng.choice(("u22x3", "u22x3", "ubuntu16"))
    return "journal", "j.journal", fixtures.load(jn), [e["rt"] * 1000 for e in c09.dump(jn)]


def check_dates(stdout, dec, name, instants, mark):
    """every line of message k starts with <file field><datetime of instant k in the requested format and zone>"""
    parts = stdout.split(mark)
    parts.pop()
    if len(parts) != len(instants):
        return "printed %d messages, the independent reader / generator knows %d" % (len(parts), len(instants))
    ff = dec.file_field(name, [name])
    for k, (p, t) in enumerate(zip(parts, instants)):
        want = ff + dec.date_field(t)
        for ln in p.lstrip(b"\x00").split(b"\n"):
            if ln in (b"", b"\x00"):
                continue
            if not ln.startswith(want):
                return "message %d: a line does not start with %r (its instant in the requested format and zone): %r" % (k, want, ln[:100])
    return None


DATE_RE = {
    None: rb"\d{8}T\d{6}\.\d{3}[+-]\d{4}",
}


def format_regex(fmt):
    """regex (bytes) matching what the model's strftime produces for fmt"""
    if fmt is None:
        fmt = decor.DEFAULT_DT_FORMAT
    rx = []
    i = 0
    table = (("%.3f", r"\.\d{3}"), ("%.6f", r"\.\d{6}"), ("%.9f", r"\.\d{9}"), ("%3f", r"\d{3}"), ("%6f", r"\d{6}"),
             ("%9f", r"\d{9}"), ("%:z", r"[+-]\d\d:\d\d"), ("%Y", r"\d{4}"), ("%m", r"\d\d"), ("%d", r"\d\d"),
             ("%e", r"[ \d]\d"), ("%H", r"\d\d"), ("%M", r"\d\d"), ("%S", r"\d\d"), ("%I", r"\d\d"), ("%p", r"[AP]M"),
             ("%y", r"\d\d"), ("%j", r"\d{3}"), ("%a", r"[A-Z][a-z]{2}"), ("%b", r"[A-Z][a-z]{2}"),
             ("%T", r"\d\d:\d\d:\d\d"), ("%D", r"\d\d/\d\d/\d\d"), ("%F", r"\d{4}-\d\d-\d\d"), ("%z", r"[+-]\d{4}"),
             ("%Z", r"[+-]\d\d:\d\d"), ("%s", r"-?\d+"), ("%f", r"\d{9}"), ("%%", "%"))
    while i < len(fmt):
        if fmt[i] != "%":
            rx.append(re.escape(fmt[i]))
            i += 1
            continue
        for tok, r in table:
            if fmt.startswith(tok, i):
                rx.append(r)
                i += len(tok)
                break
        else:
            raise ValueError(fmt[i:])
    return "".join(rx).encode("utf-8")


def check_structural(undecorated, decorated, dec, path, sepb, kind=None):
    """metamorphic: strip fields line by line; returns None or a description of the first mismatch"""
    ff = dec.file_field(path, [path])
    drx = re.compile(format_regex(dec.dt_format) + re.escape(dec.psep.encode("utf-8"))) if dec.dt_off is not None else None
    out = bytearray()
    pos = 0
    n = len(decorated)
    k = 0
    while pos < n:
        if sepb and kind != "utmp" and decorated.startswith(sepb, pos) and (not ff or not decorated.startswith(ff, pos)):
            pos += len(sepb)
            continue
        if ff:
            if not decorated.startswith(ff, pos):
                return "line %d does not start with the file field %r: %r" % (k, ff, decorated[pos:pos + 80])
            pos += len(ff)
        if drx is not None:
            m = drx.match(decorated, pos)
            if not m:
                return "line %d: datetime field does not match format %r after the file field: %r" % (
                    k, dec.dt_format or decor.DEFAULT_DT_FORMAT, decorated[pos:pos + 80])
            pos = m.end()
        e = decorated.find(b"\n", pos)
        e = n if e < 0 else e + 1
        out += decorated[pos:e]
        pos = e
        k += 1
        if kind == "utmp":
            # every accounting record is printed as "<fields>\n\0" (known finding F-C08b): the NUL
            # belongs to the record and is part of the undecorated output too; then the separator
            if decorated[pos:pos + 1] == b"\x00":
                out += b"\x00"
                pos += 1
            if sepb:
                if not decorated.startswith(sepb, pos):
                    return "record %d is not followed by the separator %r: %r" % (k, sepb, decorated[pos:pos + 40])
                pos += len(sepb)
    und = undecorated
    if bytes(out) != und:
        return "after deleting the fields: " + mergecheck.show_diff(bytes(out), und)
    return None


def run_case(seed, i, tier):
    rng = core.rng_for(seed, PROP, i)
    cr = CaseResult()
    argv, dec, colour, tz_env = gen_options(rng)
    prng = core.rng_for(seed, PROP, i, "plan")
    plan = core.random_plan(prng, 3, budget=3_000_000)
    plan.hashseed = rng.getrandbits(32)
    # program start instant decides nothing for fixed-offset TZ strings, but is simulated anyway
    plan.now = (1_600_000_000 + rng.randrange(0, 10**8), rng.randrange(10**9))
    sepb = decor.unescape_separator(dec.sep)
    if i % 3 != 2:
        bsz = rng.choice((65536, 65536, 64, 70, 100, 128, 256))
        srcs = text_case(rng, bsz)
        opts = argv + ["--tz-offset", "+00:00"] + (["--blocksz", str(bsz)] if bsz != 65536 else [])
        if bsz != 65536:
            cr.probes["small_read_blocks"] += 1
        merged = merge.model_merge(srcs)
        expected = decor.model_stdout(srcs, merged, dec)
        scn = merge.scenario_for(srcs, opts, tz_env)
        res = core.execute(scn, plan)
        got = res.stdout if colour == "never" else decor.strip_colour(res.stdout)
        vs = mergecheck.evaluate(res, None, check_protocol=False)
        if not vs and got != expected:
            vs.append(("decorated_output_differs_from_model", mergecheck.show_diff(got, expected)))
        if not vs and colour == "always" and b"\x1b[" not in res.stdout and res.stdout:
            vs.append(("colour_always_emits_no_escape", "no SGR sequence in %d bytes of output" % len(res.stdout)))
        kind = "text"
        rp = {"kind": "text", "sources": mergecheck.sources_to_json(srcs), "opts": opts, "tz": tz_env,
              "plan": plan.as_replay(res.trace).to_json(), "dec": dec.__dict__, "colour": colour}
        sample = {"argv": scn.argv, "TZ": tz_env, "sources": merge.describe(srcs)}
    else:
        kind, name, data, instants = fixture_case(rng)
        base = ["--tz-offset", "+00:00"]
        if kind == "journal" and rng.random() < 0.7:
            # the renderings differ in how many lines an entry takes and in whether some of them are empty (export ends
            # every entry with one, verbose shows multi-line values)
            rs = ("export", "export", "verbose", "verbose", "cat", "short-iso", "short-precise", "short-full")
            if dec.psep == "" and dec.dt_off is not None:
                # no separator after the datetime field: keep to renderings whose lines begin with a letter, or where the
                # field ends would be a guess (a '%s' field followed by a line that starts '2023-12-15 ...')
                rs = ("export", "verbose")
            base += ["--journal-output", rng.choice(rs)]
            cr.probes["journal_rendering_" + base[-1]] += 1
        und_scn = core.Scenario([core.FileSpec(name, data, 1600000000)], ["--color", "never"] + base + [name], None, tz_env)
        und = core.execute(und_scn, plan)
        dec_scn = core.Scenario([core.FileSpec(name, data, 1600000000)], argv + base + [name], None, tz_env)
        res = core.execute(dec_scn, plan)
        cr.runs += 1
        got = res.stdout if colour == "never" else decor.strip_colour(res.stdout)
        vs = mergecheck.evaluate(res, None, check_protocol=False) or mergecheck.evaluate(und, None, check_protocol=False)
        if not vs:
            d = check_structural(und.stdout, got, dec, name, sepb, kind)
            if d:
                vs.append(("decoration_not_removable_" + kind, d))
        dates_scn = None
        if not vs and instants is not None and dec.dt_off is not None:
            # the datetime field must be the message's own instant (known from the generator / the independent readers)
            margv = [a for a in argv if not a.startswith("--separator=")] + ["--separator=<#D#>"]
            dates_scn = core.Scenario([core.FileSpec(name, data, 1600000000)], margv + base + [name], None, tz_env)
            r3 = core.execute(dates_scn, plan)
            cr.runs += 1
            got3 = r3.stdout if colour == "never" else decor.strip_colour(r3.stdout)
            d = check_dates(got3, dec, name, instants, b"<#D#>")
            cr.probes["date_field_checked_against_known_instant_" + kind] += 1
            if d:
                vs.append(("date_field_differs_" + kind, d))
        rp = {"kind": kind, "und": und_scn.to_json() if len(data) < 3_000_000 else None, "dec_scn": dec_scn.to_json() if len(data) < 3_000_000 else None,
              "plan": plan.as_replay(res.trace).to_json(), "dec": dec.__dict__, "colour": colour, "name": name,
              "dates_scn": dates_scn.to_json() if (dates_scn is not None and len(data) < 3_000_000) else None, "instants": instants}
        sample = {"argv": dec_scn.argv, "TZ": tz_env, "source": kind, "bytes": len(data)}
    tr = res.trace
    cr.runs += 1
    cr.steps += tr.steps
    cr.steps_max = max(cr.steps_max, tr.steps)
    cr.policies[plan.policy.split(":")[0]] += 1
    cr.probes["kind_" + kind] += 1
    cr.probes["colour_" + colour] += 1
    if dec.file_mode:
        cr.probes["file_field_" + dec.file_mode + ("_aligned" if dec.align else "")] += 1
    if dec.dt_off is not None:
        cr.probes["date_field"] += 1
    if dec.sep:
        cr.probes["message_separator"] += 1
    cr.decision_hashes.append(tr.decision_hash())
    cr.arrival_hashes.append(tr.arrival_hash())
    cr.nontrivial_keys.append(core.derive(0, "%s|%s" % (sample, i)))
    cr.clock_span = (plan.now[0], plan.now[0])
    for (cls, detail) in vs:
        rp["class"] = cls
        cr.violations.append(Violation(cls, "kind=%s argv=%s TZ=%s: %s" % (kind, argv, tz_env, detail), rp))
    cr.sample = sample
    return cr


def classes_of(rp):
    plan = core.Plan.from_json(rp["plan"])
    d = rp["dec"]
    dec = decor.Decoration(d["file_mode"], d["align"], d["dt_off"], d["dt_format"], d["psep"], d["sep"])
    if rp["kind"] == "text":
        srcs = mergecheck.sources_from_json(rp["sources"])
        res = core.execute(merge.scenario_for(srcs, rp["opts"], rp["tz"]), plan)
        got = res.stdout if rp["colour"] == "never" else decor.strip_colour(res.stdout)
        cl = set(c for (c, _) in mergecheck.evaluate(res, None, check_protocol=False))
        if not cl and got != decor.model_stdout(srcs, merge.model_merge(srcs), dec):
            cl.add("decorated_output_differs_from_model")
        return cl
    if rp.get("und") is None:
        raise RuntimeError("replay of an 8 MiB journal scenario is not inlined")
    und = core.execute(core.Scenario.from_json(rp["und"]), plan)
    res = core.execute(core.Scenario.from_json(rp["dec_scn"]), plan)
    got = res.stdout if rp["colour"] == "never" else decor.strip_colour(res.stdout)
    cl = set(c for (c, _) in mergecheck.evaluate(res, None, check_protocol=False))
    if not cl and check_structural(und.stdout, got, dec, rp["name"], decor.unescape_separator(dec.sep), rp["kind"]):
        cl.add("decoration_not_removable_" + rp["kind"])
    if not cl and rp.get("dates_scn"):
        r3 = core.execute(core.Scenario.from_json(rp["dates_scn"]), plan)
        got3 = r3.stdout if rp["colour"] == "never" else decor.strip_colour(r3.stdout)
        if check_dates(got3, dec, rp["name"], rp["instants"], b"<#D#>"):
            cl.add("date_field_differs_" + rp["kind"])
    return cl


def replay(rp):
    cl = classes_of(rp)
    return (rp.get("class") in cl) if rp.get("class") else bool(cl)


RULE = ("one case = one option tuple {-n|-p} x -w x {-u|-l|--prepend-tz|-d only} x -d FORMAT (10 formats over the "
        "model's strftime vocabulary) x --prepend-separator (8) x --separator (10, incl. every documented escape) x "
        "--color {always,never} x local zone (TZ: 5 fixed-offset zones) over 1..4 generated text sources with names of "
        "different and non-ASCII widths (two thirds of the cases, exact model) or one shipped utmp / evtx / journal "
        "file (one third, metamorphic strip oracle); non-trivial = every run; distinct = (options, scenario)")
ASSUMPTIONS = ["the model's strftime covers a fixed token vocabulary (chrono semantics); formats outside it are not generated",
               "local zones are fixed-offset POSIX TZ strings, so -l does not depend on DST rules",
               "for generated accounting files, the shipped evtx and the shipped journals the datetime field is compared with the instant known from the generator / the independent readers; for shipped accounting files it is matched against the format only"]


def main(tier):
    n = 2400 if tier == "quick" else 100000
    cap = 300 if tier == "quick" else 1500
    return engine.run_check(PROP, "c13", tier, n, cap, "exploration", RULE, ASSUMPTIONS)
