"""Event-log files with chosen creation times: the shipped .evtx (the only one with records) re-stamped.

The creation time s4 (and the independent dump) sort and filter on is the FILETIME in each record's header
(offset 16 of the record: magic 2a 2a 00 00, u32 size, u64 record id, u64 FILETIME). Re-stamping rewrites exactly
those 8 bytes per record and recomputes the two CRC32 fields of every chunk header (records checksum at 52, header
checksum at 124), so the result is a well-formed event-log file whose records carry any multiset of times: ties,
all equal, reversed, shuffled, clustered around second boundaries. The rendered XML still shows the original
SystemTime attribute (it lives inside the binary XML and is not what orders or filters records).
"""
import struct
import zlib

CHUNK0 = 0x1000
CHUNK = 0x10000
EPOCH_DIFF_100NS = 116444736000000000


def records(data):
    """-> [(absolute offset of the record, record id, FILETIME)] in file order"""
    out = []
    off = CHUNK0
    while off + 512 <= len(data) and data[off:off + 8] == b"ElfChnk\x00":
        (free,) = struct.unpack_from("<I", data, off + 48)
        p = off + 512
        while p + 24 <= off + free and data[p:p + 4] == b"\x2a\x2a\x00\x00":
            size, rid, ft = struct.unpack_from("<IQQ", data, p + 4)
            if size < 24:
                break
            out.append((p, rid, ft))
            p += size
        off += CHUNK
    return out


def fix_checksums(buf):
    off = CHUNK0
    while off + 512 <= len(buf) and bytes(buf[off:off + 8]) == b"ElfChnk\x00":
        (free,) = struct.unpack_from("<I", buf, off + 48)
        struct.pack_into("<I", buf, off + 52, zlib.crc32(bytes(buf[off + 512:off + free])) & 0xFFFFFFFF)
        struct.pack_into("<I", buf, off + 124, zlib.crc32(bytes(buf[off:off + 120]) + bytes(buf[off + 128:off + 512])) & 0xFFFFFFFF)
        off += CHUNK


def used_chunks(data):
    n = 0
    while CHUNK0 + (n + 1) * CHUNK <= len(data) and data[CHUNK0 + n * CHUNK:CHUNK0 + n * CHUNK + 8] == b"ElfChnk\x00":
        n += 1
    return n


def permute_chunks(data, perm):
    """the used 64 KiB chunks in another physical order (a wrapped ring-buffer log stores its newest chunk before older
    ones): chunks are self-contained, so this only changes the order in which records are met -- record ids are then no
    longer ascending in file order"""
    n = used_chunks(data)
    assert sorted(perm) == list(range(n)), (perm, n)
    chunks = [data[CHUNK0 + k * CHUNK:CHUNK0 + (k + 1) * CHUNK] for k in range(n)]
    return data[:CHUNK0] + b"".join(chunks[k] for k in perm) + data[CHUNK0 + n * CHUNK:]


def first_records(data, k):
    """a small log: the file header and the first chunk cut down to its first k records (the unused space zeroed, the
    chunk header's record numbers / last-record and free-space offsets set accordingly, string- and template-table slots
    that pointed beyond the cut cleared); checksums recomputed. Rarely written channels look like this: a handful of
    records in one mostly empty 64 KiB chunk, which compresses to a few KiB."""
    one = bytearray(data[:CHUNK0 + CHUNK])
    off = CHUNK0
    p = off + 512
    last = p
    n = 0
    for _ in range(k):
        if p + 24 > off + CHUNK or bytes(one[p:p + 4]) != b"\x2a\x2a\x00\x00":
            break
        last = p
        p += struct.unpack_from("<I", one, p + 4)[0]
        n += 1
    cut = p - off
    one[off + cut:off + CHUNK] = bytes(CHUNK - cut)
    struct.pack_into("<QQQQ", one, off + 8, 1, n, 1, n)
    struct.pack_into("<II", one, off + 44, last - off, cut)
    for base, cnt in ((128, 64), (384, 32)):
        for j in range(cnt):
            if struct.unpack_from("<I", one, off + base + 4 * j)[0] >= cut:
                struct.pack_into("<I", one, off + base + 4 * j, 0)
    # file header: one chunk, next record number; header checksum over the first 120 bytes
    struct.pack_into("<QQQ", one, 8, 0, 0, n + 1)
    struct.pack_into("<H", one, 42, 1)
    struct.pack_into("<I", one, 124, zlib.crc32(bytes(one[:120])) & 0xFFFFFFFF)
    fix_checksums(one)
    return bytes(one), n


def tear_record(data, k):
    """record k (file order) with the first 16 bytes of its binary XML overwritten, its header (size, id, time) left as it
    is: a torn record as in a log copied from a live or crashed system. A reader cannot render that record; the records
    stored after it are intact and must still come out. Chunk checksums recomputed."""
    recs = records(data)
    p = recs[k][0]
    buf = bytearray(data)
    buf[p + 24:p + 40] = b"\xff" * 16
    fix_checksums(buf)
    return bytes(buf)


def ns_to_filetime(ns):
    return ns // 100 + EPOCH_DIFF_100NS


def filetime_to_ns(ft):
    return (ft - EPOCH_DIFF_100NS) * 100


def restamp(data, times_ns):
    """data with record k (file order) carrying times_ns[k] (truncated to 100 ns)"""
    recs = records(data)
    assert len(recs) == len(times_ns), (len(recs), len(times_ns))
    buf = bytearray(data)
    for ((p, _, _), t) in zip(recs, times_ns):
        struct.pack_into("<Q", buf, p + 16, ns_to_filetime(t))
    fix_checksums(buf)
    return bytes(buf)


def stale_checksums(data, which):
    """data with the stored CRC32 fields of some chunks no longer matching their contents: `which` = [(chunk index, field)]
    with field 52 (event-records checksum) or 124 (chunk-header checksum). A log copied from a running system ("dirty")
    looks like this; the records themselves are intact and readers that do not insist on the checksums read them all."""
    buf = bytearray(data)
    for (k, field) in which:
        off = CHUNK0 + k * CHUNK
        (v,) = struct.unpack_from("<I", buf, off + field)
        struct.pack_into("<I", buf, off + field, v ^ 0x5A5A5A5A)
    return bytes(buf)


def gen_times(rng, recs, pattern):
    """a time for each record (ns, multiples of 100) by pattern"""
    orig = [filetime_to_ns(ft) for (_, _, ft) in recs]
    n = len(orig)
    if pattern == "shuffled":
        t = list(orig)
        rng.shuffle(t)
        return t
    if pattern == "reversed":
        return list(reversed(sorted(orig)))
    if pattern == "all_equal":
        return [orig[0]] * n
    base = min(orig) // 1_000_000_000 * 1_000_000_000
    if pattern == "tie_groups":
        vals = [base + rng.randrange(0, 40) * 1_000_000_000 for _ in range(rng.randint(2, 12))]
        return [rng.choice(vals) for _ in range(n)]
    if pattern == "second_edges":
        return [base + rng.randrange(0, 5) * 1_000_000_000 + rng.choice((0, 1000, 999_999_000, 500_000_000, 999_000_000)) for _ in range(n)]
    if pattern == "increasing":
        t = base
        out = []
        for _ in range(n):
            t += rng.choice((0, 1000, 2000, 1_000_000, 1_000_000_000))
            out.append(t)
        return out
    raise ValueError(pattern)


PATTERNS = ("shuffled", "reversed", "all_equal", "tie_groups", "tie_groups", "second_edges", "increasing")
