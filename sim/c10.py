"""C10 -- event-log files: every record once, ordered by creation time.

Inputs: the .evtx files shipped in /repo/logs (the only ones available). Oracle: an independent dump
made with the `evtx` crate by /verif/aux (s4aux evtxdump): (enumeration index, EventRecordID,
creation time). Expected print order = stable sort by creation time (ties keep file order); the
window A <= t <= B is applied to that time, bounds placed on / around actual record times, in
particular inside the region where the file stores records out of order. s4's output is split by a
--separator marker and the EventRecordID parsed out of each printed XML document. Plain and every
container; alone and next to a text source; under seeded schedules.
"""
import re
import subprocess

import core
import engine
import fixtures
import merge
import mergecheck
import world
import c03
from build import AUXBIN, REPO
from engine import Violation, CaseResult

PROP = "C10"
MARK = "<#EVTX-SEP#>"
RID = re.compile(rb"<EventRecordID>(\d+)</EventRecordID>")
_DUMP = {}
FORCE_WINDOW = False      # set by C03 when it runs this check for its own purpose (every case gets a window)


def dump(name):
    """[(index, record id, ns)] from the independent reader"""
    if name in _DUMP:
        return _DUMP[name]
    import os
    path = os.path.join(REPO, fixtures.EVTX[name][0])
    out = subprocess.run([AUXBIN, "evtxdump", path], stdout=subprocess.PIPE, stderr=subprocess.PIPE, check=True).stdout
    recs = []
    for ln in out.decode().split("\n"):
        if not ln:
            continue
        a, b, c = ln.split("\t", 2)
        if b == "ERR":
            raise RuntimeError("independent evtx reader failed on %s: %s" % (name, c))
        recs.append((int(a), int(b), int(c)))
    _DUMP[name] = recs
    return recs


def dump_bytes(data, allow_err=False):
    """[(index, record id, ns)] of an event-log file given as bytes, from the independent reader (allow_err: records it
    cannot render are left out instead of being an error of the harness)"""
    import os
    d = os.path.join(core.scratch_root(), "journals")
    os.makedirs(d, exist_ok=True)
    path = os.path.join(d, "evtx-%d.evtx" % os.getpid())
    with open(path, "wb") as fh:
        fh.write(data)
    try:
        out = subprocess.run([AUXBIN, "evtxdump", path], stdout=subprocess.PIPE, stderr=subprocess.PIPE, check=True).stdout
    finally:
        os.unlink(path)
    recs = []
    for ln in out.decode().split("\n"):
        if not ln:
            continue
        a, b, c = ln.split("\t", 2)
        if b == "ERR":
            if allow_err:
                continue
            raise RuntimeError("independent evtx reader failed on a re-stamped file: %s" % c)
        recs.append((int(a), int(b), int(c)))
    return recs


def restamped(rng):
    """the shipped file with its records re-stamped (sim/evtxmut.py) -> (bytes, dump, times, pattern)"""
    import evtxmut
    base = fixtures.load("pnp")
    perm = None
    small = None
    if rng.random() < 0.3:
        # a small log: the first 1..78 records of the first chunk only (compresses to a few KiB)
        base, small = evtxmut.first_records(base, rng.choice((1, 2, 3, 5, 8, 13, 20, 40, 78)))
    elif rng.random() < 0.5:
        perm = list(range(evtxmut.used_chunks(base)))
        rng.shuffle(perm)
        base = evtxmut.permute_chunks(base, perm)
    pattern = rng.choice(evtxmut.PATTERNS) + ("" if perm is None else "+chunks%s" % "".join(str(k) for k in perm)) + ("" if small is None else "+first%d" % small)
    times = evtxmut.gen_times(rng, evtxmut.records(base), pattern.split("+")[0])
    data = evtxmut.restamp(base, times)
    torn = None
    nrec = len(times)
    if nrec >= 3 and rng.random() < 0.15:
        # one record (not the last one) that no reader can render. What is stored after it must still be printed -- as far as
        # the independent reader can render it: a record may lean on a template defined inside the torn one
        torn = rng.randrange(0, nrec - 1)
        untorn = data
        data = evtxmut.tear_record(data, torn)
        if not dump_bytes(data, allow_err=True):
            data, torn = untorn, None      # (nothing at all can be rendered once that record is gone: not a useful input)
    stale = None
    if rng.random() < 0.3:
        # a "dirty" log: stored chunk checksums that no longer match (records intact)
        nch = evtxmut.used_chunks(data)
        which = sorted(set((rng.randrange(nch), rng.choice((52, 52, 124))) for _ in range(rng.randint(1, nch))))
        data = evtxmut.stale_checksums(data, which)
        stale = which
    if torn is not None:
        pattern += "+torn%d" % torn
    if stale is not None:
        pattern += "+stale" + ",".join("%d:%d" % w for w in stale)
    recs = dump_bytes(data, allow_err=torn is not None)
    seen = [t // 1000 * 1000 for (k_, t) in enumerate(times) if k_ != torn]
    got = [t for (_, _, t) in recs]
    if torn is None:
        if got != seen:      # the evtx crate reads FILETIMEs to the microsecond
            raise RuntimeError("re-stamped event log: the independent reader does not see the times written")
    else:
        it = iter(seen)
        if not all(any(x == y for y in it) for x in got):
            raise RuntimeError("torn record %d: the independent reader sees times that were not written" % torn)
    return data, recs, times, pattern


def expected_ids(recs, a, b):
    sel = [(i, rid, t) for (i, rid, t) in recs if (a is None or t >= a) and (b is None or t <= b)]
    sel.sort(key=lambda r: (r[2], r[0]))
    return [rid for (_, rid, _) in sel]


def place(rng, recs):
    ts = sorted(set(t for (_, _, t) in recs))
    # out-of-order regions: times of records that are stored after a later-timed record
    ooo = []
    mx = None
    for (_, _, t) in recs:
        if mx is not None and t < mx:
            ooo.append(t)
            ooo.append(mx)
        mx = t if mx is None else max(mx, t)
    r = rng.random()
    if ooo and r < 0.35:
        lo, hi = min(ooo), max(ooo)
        x = rng.choice((rng.choice(ooo), rng.randint(lo, hi), rng.choice(ooo) + rng.choice((-1000, 1000))))
        return x - x % 1000
    return c03.place(rng, ts)


def run_case(seed, i, tier):
    rng = core.rng_for(seed, PROP, i)
    name = "pnp" if rng.random() < 0.9 else "noevents"
    times = pattern = None
    if name == "pnp" and rng.random() < 0.5:
        data, recs, times, pattern = restamped(rng)
    else:
        recs = dump(name)
        data = fixtures.load(name)
    cont = rng.choice(("plain", "plain", "gz", "bz2", "xz", "lz4", "tar"))
    rts = [t // 1_000_000_000 for (_, _, t) in recs] or [1_600_000_000]
    mt_file, mt_in = world.mtime_around(rng, min(rts), max(rts)), world.mtime_around(rng, min(rts), max(rts))
    if cont == "tar":
        stored = world.to_tar([(world.member_path(rng, "e.evtx"), data, mt_in)], rng.choice(("ustar", "gnu", "pax")))
        path = "ev.tar"
    else:
        stored, _ = world.random_container(rng, cont, data, mt_in, "e.evtx") if cont != "plain" else (data, None)
        path = "e.evtx" + world.SUFFIX[cont]
    opts = ["--color", "never", "--tz-offset", "+00:00", "--separator", MARK]
    a = b = None
    form = rng.choice(("none", "both", "both", "only_a", "only_b", "a_eq_b"))
    if FORCE_WINDOW and form == "none":
        form = "both"
    if recs and form != "none":
        a = place(rng, recs) if form != "only_b" else None
        b = place(rng, recs) if form != "only_a" else None
        if form == "a_eq_b":
            b = a
        if a is not None and b is not None and a > b:
            a, b = b, a
        if a is not None:
            opts += ["-a", c03.fmt_bound(rng, a)]
        if b is not None:
            opts += ["-b", c03.fmt_bound(rng, b)]
    want = expected_ids(recs, a, b)
    files = [core.FileSpec(path, stored, mt_file)]
    argv = opts + [path]
    text_src = None
    if rng.random() < 0.3:
        # a text source beside it: its messages interleave by time; they are ignored by the id check
        p = world.TextLogParams(n_msgs=rng.randint(1, 5), src_letter=b"T", t0=1678938870_000_000_000, cont_p=0.0)
        content, msgs, _ = world.gen_text_log(rng, p)
        files.append(core.FileSpec("t.log", content, 1600000000))
        argv = opts + ([path, "t.log"] if rng.random() < 0.5 else ["t.log", path])
        text_src = msgs
    scn = core.Scenario(files, argv, None, "UTC")
    prng = core.rng_for(seed, PROP, i, "plan")
    plan = core.random_plan(prng, len(files), budget=3_000_000)
    plan.hashseed = rng.getrandbits(32)
    res = core.execute(scn, plan)
    tr = res.trace
    cr = CaseResult()
    cr.runs = 1
    cr.steps = tr.steps
    cr.steps_max = tr.steps
    cr.policies[plan.policy.split(":")[0]] += 1
    cr.probes["container_" + cont] += 1
    cr.probes["window_" + form] += 1
    if pattern:
        cr.probes["restamped_" + pattern.split("+")[0]] += 1
        if "+chunks" in pattern:
            cr.probes["chunks_permuted"] += 1
        if "+stale" in pattern:
            cr.probes["stale_chunk_checksums"] += 1
        if "+first" in pattern:
            cr.probes["small_log_first_records_only"] += 1
        if "+torn" in pattern:
            cr.probes["one_record_torn"] += 1
    rtimes = set(t for (_, _, t) in recs)
    if a in rtimes or b in rtimes:
        cr.probes["bound_exactly_on_a_record_time"] += 1
    if want and len(want) < len(recs):
        cr.probes["selection_partial"] += 1
    cr.decision_hashes.append(tr.decision_hash())
    cr.arrival_hashes.append(tr.arrival_hash())
    cr.nontrivial_keys.append(core.derive(0, "%s|%s|%s|%s|%s" % (name, cont, a, b, core.derive(0, repr(times)) if times else "")))
    vs = mergecheck.evaluate(res, None, check_protocol=False)
    if not vs and res.rc != 0 and "+torn" not in (pattern or ""):
        vs.append(("exit_status_nonzero_for_a_valid_file", "exit status %s; stderr tail %r" % (res.rc, res.stderr[-200:])))
    if not vs:
        d = check(res.stdout, want)
        if d:
            vs.append(("records_differ", d))
    for (cls, detail) in vs:
        rp = {"scenario": scn.to_json(), "plan": plan.as_replay(tr).to_json(), "class": cls, "fixture": name, "a": a, "b": b,
              "times_ns": times, "restamp_pattern": pattern}
        cr.violations.append(Violation(cls, "file=%s%s container=%s window=%s (a=%s b=%s) argv=%s: %s" % (
            name, " re-stamped:" + pattern if pattern else "", cont, form, a, b, argv[:-1], detail), rp))
    cr.sample = {"argv": argv, "fixture": name, "restamped": pattern, "records_in_file": len(recs), "expected_selected": len(want), "a_ns": a, "b_ns": b}
    return cr


def check(stdout, want):
    parts = stdout.split(MARK.encode())
    got = []
    for p in parts:
        ids = RID.findall(p)
        if len(ids) > 1:
            return "one printed message holds %d EventRecordIDs (records merged?)" % len(ids)
        if ids:
            got.append(int(ids[0]))
    if got != want:
        missing = [x for x in want if x not in got][:10]
        extra = [x for x in got if x not in want][:10]
        dup = sorted(set(x for x in got if got.count(x) > 1))[:10]
        k = 0
        while k < min(len(got), len(want)) and got[k] == want[k]:
            k += 1
        return "printed %d records, expected %d; missing=%s unexpected=%s repeated=%s; first difference at position %d (got %s, want %s)" % (
            len(got), len(want), missing, extra, dup, k, got[k:k + 3], want[k:k + 3])
    return None


def classes_of(rp):
    scn = core.Scenario.from_json(rp["scenario"])
    plan = core.Plan.from_json(rp["plan"])
    res = core.execute(scn, plan)
    cl = set(c for (c, _) in mergecheck.evaluate(res, None, check_protocol=False))
    if rp.get("times_ns"):
        import evtxmut
        base = fixtures.load("pnp")
        pat = rp.get("restamp_pattern") or ""
        if "+chunks" in pat:
            base = evtxmut.permute_chunks(base, [int(ch) for ch in pat.split("+chunks")[1].split("+")[0]])
        if "+first" in pat:
            base, _ = evtxmut.first_records(base, int(pat.split("+first")[1].split("+")[0]))
        data = evtxmut.restamp(base, rp["times_ns"])
        if "+torn" in pat:
            data = evtxmut.tear_record(data, int(pat.split("+torn")[1].split("+")[0]))
        if "+stale" in pat:
            data = evtxmut.stale_checksums(data, [tuple(int(x) for x in w.split(":")) for w in pat.split("+stale")[1].split("+")[0].split(",")])
        recs = dump_bytes(data, allow_err="+torn" in pat)
    else:
        recs = dump(rp["fixture"])
    if not cl and check(res.stdout, expected_ids(recs, rp["a"], rp["b"])):
        cl.add("records_differ")
    return cl


def replay(rp):
    cl = classes_of(rp)
    return (rp.get("class") in cl) if rp.get("class") else bool(cl)


RULE = ("one case = a shipped .evtx file (Microsoft-Windows-Kernel-PnP%4Configuration.evtx, 227 records, stored out of "
        "order; NoEvents.evtx) or that file with every record re-stamped (sim/evtxmut.py: shuffled / reversed / all equal / "
        "tie groups / second edges / increasing; chunk checksums recomputed -- then, in 30% of them, left stale in some chunks as in a log copied from a running system; half of them with the 64 KiB chunks in another physical order, as in a wrapped log) plain or in gz/bz2/xz/lz4/tar, with no window or a window whose bounds sit exactly on / 1 us "
        "off / between record times, 35% inside the out-of-order region, optionally next to a text source, under a seeded "
        "schedule; non-trivial = every run; distinct = (file, container, window)")
ASSUMPTIONS = ["the independent dump uses the same `evtx` crate (record decoding is trusted); ordering, tie rule and windowing are independent",
               "record bodies come from the one shipped file with records; creation times (what orders and filters records) are re-stamped freely"]


def main(tier):
    n = 500 if tier == "quick" else 30000
    cap = 400 if tier == "quick" else 1500
    return engine.run_check(PROP, "c10", tier, n, cap, "exploration", RULE, ASSUMPTIONS)
