"""C19 -- the summary agrees with what was printed.

Conservation over the print history: the same scenario with and without --summary gives identical
stdout; the summary text appears only on stderr; `Printed bytes` == len(stdout); `Printed lines`,
`Printed syslines` == the model's counts; sum of per-file `bytes` + separators + supplied final
newlines == the total; first / last printed datetimes and the two resolved filter lines are those
of the run (model). Decoration options vary because they change the byte counts.
"""
import re

import core
import decor
import engine
import fixtures
import merge
import mergecheck
import world
import c03
import c13
from engine import Violation, CaseResult

PROP = "C19"


def parse_summary(stderr):
    txt = stderr.decode("utf-8", "replace")
    out = {"files": {}, "total": {}}
    m = re.search(r"^Program Summary:\n(.*)\Z", txt, re.S | re.M)
    if not m:
        return None
    for ln in m.group(1).split("\n"):
        if ":" in ln:
            k, v = ln.split(":", 1)
            out["total"][k.strip()] = v.strip()
    for fm in re.finditer(r"^File: (.*?)\n(.*?)(?=^File: |^Program Summary:)", txt, re.S | re.M):
        sec = fm.group(2)
        pm = re.search(r"^  Printed:\n((?:      .*\n)+)", sec, re.M)
        d = {}
        if pm:
            for ln in pm.group(1).split("\n"):
                if ":" in ln:
                    k, v = ln.split(":", 1)
                    d[k.strip()] = v.strip()
        out["files"][fm.group(1)] = d
    return out


def utc_paren(v):
    """'2009-01-02 05:45:02 +05:45 (2009-01-02 00:00:02 +00:00)' -> '2009-01-02 00:00:02'"""
    m = re.search(r"\((\d{4}-\d\d-\d\d \d\d:\d\d:\d\d) \+00:00\)", v or "")
    return m.group(1) if m else None


def fmt_utc(ns):
    y, mo, d, h, mi, s, _ = world.civil(ns - ns % 1_000_000_000, 0)
    return "%04d-%02d-%02d %02d:%02d:%02d" % (y, mo, d, h, mi, s)


def gen_case(rng):
    argv, dec, colour, tz_env = c13.gen_options(rng)
    if colour in ("auto", "default") or (colour == "always" and rng.random() < 0.6):
        # (colour is C13's business; here it would only land most cases in known finding F-C19a)
        if argv[:1] == ["--color"]:
            argv = argv[2:]
        colour = "never"
        argv = ["--color", "never"] + argv
    n = rng.choice((1, 2, 3, 4))
    bsz = rng.choice((256, 4096, 65536))
    srcs = merge.gen_sources(rng, n, bsz, max_msgs=rng.choice((2, 6, 15)), containers=("plain", "plain", "gz", "xz"),
                             allow_degenerate=rng.random() < 0.3, tie_heavy=True, frac_choices=(3, 6, 1))
    a = b = None
    ts = sorted(set(m.instant for s in srcs for m in s.msgs))
    opts = argv + ["--tz-offset", "+00:00", "--blocksz", str(bsz)]
    if ts and rng.random() < 0.5:
        a = c03.place(rng, ts) if rng.random() < 0.7 else None
        b = c03.place(rng, ts) if rng.random() < 0.7 else None
        if a is not None and b is not None and a > b:
            a, b = b, a
        if a is not None:
            opts += ["-a", c03.fmt_bound(rng, a)]
        if b is not None:
            opts += ["-b", c03.fmt_bound(rng, b)]
    return srcs, opts, dec, colour, tz_env, a, b


def expectations(srcs, dec, a, b):
    f = c03.filtered(srcs, a, b)
    merged = []
    for (si, m, is_last) in merge.model_merge(f):
        merged.append((si, m, is_last and f[si].last_is_file_last))
    exp = decor.model_stdout(f, merged, dec)
    sepb = decor.unescape_separator(dec.sep)
    lines = sum(len(decor.split_lines(m.data)) for (_, m, _) in merged)
    added_nl = sum(1 for (_, m, last) in merged if last and not m.data.endswith(b"\n"))
    per_file = {}
    printed_paths = []
    for (si, _, _) in merged:
        if f[si].path not in printed_paths:
            printed_paths.append(f[si].path)
    for (si, m, _) in merged:
        pre = dec.file_field(f[si].path, printed_paths) + dec.date_field(m.instant)
        nb = sum(len(pre) + len(ln) for ln in decor.split_lines(m.data))
        d = per_file.setdefault(f[si].path, {"bytes": 0, "lines": 0, "syslines": 0})
        d["bytes"] += nb
        d["lines"] += len(decor.split_lines(m.data))
        d["syslines"] += 1
    return exp, {"lines": lines, "syslines": len(merged), "seps": len(merged) * len(sepb), "added_nl": added_nl,
                 "first": merged[0][1].instant if merged else None, "last": merged[-1][1].instant if merged else None,
                 "per_file": per_file}


def check(res_plain, res_sum, exp_stdout, ex, colour, a, b):
    v = []
    vs = mergecheck.evaluate(res_sum, None, check_protocol=False) or mergecheck.evaluate(res_plain, None, check_protocol=False)
    if vs:
        return vs
    if res_sum.stdout != res_plain.stdout:
        return [("summary_changes_stdout", mergecheck.show_diff(res_sum.stdout, res_plain.stdout))]
    got = res_sum.stdout if colour == "never" else decor.strip_colour(res_sum.stdout)
    if got != exp_stdout:
        return [("stdout_differs_from_model", mergecheck.show_diff(got, exp_stdout))]
    if b"Program Summary" in res_sum.stdout:
        v.append(("summary_text_on_stdout", "summary text found on stdout"))
    if b"Program Summary" in res_plain.stderr:
        v.append(("summary_without_option", "summary printed without --summary"))
    sm = parse_summary(res_sum.stderr if colour == "never" else decor.strip_colour(res_sum.stderr))
    if sm is None:
        return v + [("summary_missing", "no Program Summary on stderr: %r" % res_sum.stderr[-300:])]
    tot = sm["total"]

    def num(k, d=tot):
        try:
            return int(d.get(k, "").split()[0])
        except (ValueError, IndexError):
            return None
    pb = num("Printed bytes")
    if pb != len(res_sum.stdout):
        if colour == "always" and pb == len(decor.strip_colour(res_sum.stdout)):
            v.append(("printed_bytes_exclude_colour_escapes", "Printed bytes %s, written %d, without SGR sequences %d" % (
                pb, len(res_sum.stdout), len(decor.strip_colour(res_sum.stdout)))))
        else:
            v.append(("printed_bytes_differ_from_stdout", "Printed bytes %s but %d bytes were written to stdout" % (pb, len(res_sum.stdout))))
    if num("Printed lines") != ex["lines"]:
        v.append(("printed_lines_differ", "Printed lines %s, model %d" % (num("Printed lines"), ex["lines"])))
    if num("Printed syslines") != ex["syslines"]:
        v.append(("printed_syslines_differ", "Printed syslines %s, model %d" % (num("Printed syslines"), ex["syslines"])))
    # per-file counts add up (less separators and supplied newlines, which belong to no file)
    fsum = 0
    for path, d in sm["files"].items():
        fb = num("bytes", d)
        if fb is not None:
            fsum += fb
        want = ex["per_file"].get(path)
        if want and colour == "never":
            for key in ("bytes", "lines", "syslines"):
                if num(key, d) != want[key]:
                    v.append(("per_file_count_differs", "%s: Printed %s = %s, model %d" % (path, key, num(key, d), want[key])))
        if not want and d and (num("syslines", d) or 0) != 0:
            v.append(("per_file_count_differs", "%s printed nothing in the model but reports %s" % (path, d)))
    if pb is not None and fsum + ex["seps"] + ex["added_nl"] != pb:
        v.append(("per_file_bytes_do_not_add_up", "sum of per-file bytes %d + separators %d + supplied newlines %d != total %s" % (
            fsum, ex["seps"], ex["added_nl"], pb)))
    for key, inst in (("Datetime printed first", ex["first"]), ("Datetime printed last", ex["last"])):
        got_dt = utc_paren(tot.get(key))
        want_dt = fmt_utc(inst) if inst is not None else None
        if got_dt != want_dt:
            v.append(("printed_datetime_differs", "%s: %r, model %r" % (key, tot.get(key), want_dt)))
    for key, bound in (("Datetime filter -a", a), ("Datetime filter -b", b)):
        got_dt = utc_paren(tot.get(key))
        want_dt = fmt_utc(bound) if bound is not None else None
        if got_dt != want_dt:
            v.append(("filter_line_differs", "%s: %r, model %r" % (key, tot.get(key), want_dt)))
    return v


KNOWN = {}


def known_for(cls):
    if not KNOWN:
        for kf in engine.load_known(PROP):
            if kf["status"] == "open":
                for c in kf.get("signature", {}).get("classes", []):
                    KNOWN[c] = kf["id"]
        KNOWN.setdefault("_", None)
    return KNOWN.get(cls)


def run_other_kinds_case(seed, i, tier):
    """journal / event-log / accounting sources (and a text source) in one run: the summary must conserve what was printed
    -- stdout unchanged by --summary, total bytes == bytes on stdout, per-file message counts == what the independent
    readers / the generators say each file holds, per-file bytes + separators == total"""
    import c08
    import c09
    import c10
    import layouts
    rng = core.rng_for(seed, PROP, i)
    sep = rng.choice(("", "", "<#S#>", "\\n--\\n"))
    opts = ["--color", "never", "--tz-offset", "+00:00"] + (["--separator", sep] if sep else [])
    kinds = rng.sample(("journal", "evtx", "utmp", "text"), rng.randint(1, 3))
    files = []
    expect = {}      # path -> number of messages
    times = {}       # path -> the instants of its messages (ns), in the order the file's messages are printed
    for k in kinds:
        if k == "journal":
            data, ents, _ = c09.gen_journal(rng)
            files.append(core.FileSpec("g.journal", data, 1600000000))
            expect["g.journal"] = len(ents)
            times["g.journal"] = [e["rt"] * 1000 for e in ents]
        elif k == "evtx":
            if rng.random() < 0.5:
                data, recs, _, _ = c10.restamped(rng)
            else:
                data, recs = fixtures.load("pnp"), c10.dump("pnp")
            files.append(core.FileSpec("e.evtx", data, 1600000000))
            expect["e.evtx"] = len(recs)
            times["e.evtx"] = [t for (t, _) in sorted((t, k) for (k, _, t) in recs)]
        elif k == "utmp":
            name = rng.choice(sorted(layouts.LAYOUTS))
            n = rng.randint(1, 10)
            raw, recs, _ = c08.gen_records(rng, name, n)
            fname = layouts.LAYOUTS[name][6]
            files.append(core.FileSpec(fname, raw, 1600000000))
            expect[fname] = len(recs)
            times[fname] = sorted(r["sec"] * 1_000_000_000 + r["usec"] * 1000 for r in recs)
        else:
            p = world.TextLogParams(n_msgs=rng.randint(1, 8), src_letter=b"T", cont_p=0.3, t0=1678938870_000_000_000)
            content, msgs, _ = world.gen_text_log(rng, p)
            files.append(core.FileSpec("t.log", content, 1600000000))
            expect["t.log"] = len(msgs)
            times["t.log"] = [m.instant for m in msgs]
    # a datetime window in part of the cases: the per-file counts and the per-file first / last printed datetimes are then
    # those of the selection (no window when a journal's receive times step backwards, see C09)
    a = b = None
    all_ts = sorted(set(t for ts_ in times.values() for t in ts_))
    jmono = all(ts_ == sorted(ts_) for (p_, ts_) in times.items() if p_ == "g.journal")
    if all_ts and jmono and rng.random() < 0.45:
        a = c03.place(rng, all_ts) if rng.random() < 0.7 else None
        b = c03.place(rng, all_ts) if (rng.random() < 0.7 or a is None) else None
        if a is not None and b is not None and a > b:
            a, b = b, a
        if a is not None:
            a -= a % 1000
            opts += ["-a", c03.fmt_bound(rng, a)]
        if b is not None:
            b -= b % 1000
            opts += ["-b", c03.fmt_bound(rng, b)]
    sel = {p_: [t for t in ts_ if (a is None or t >= a) and (b is None or t <= b)] for (p_, ts_) in times.items()}
    expect = {p_: len(v_) for (p_, v_) in sel.items()}
    rng.shuffle(files)
    argv = opts + [f.path for f in files]
    cr = CaseResult()
    if a is not None or b is not None:
        cr.probes["other_kinds_with_window"] += 1
    prng = core.rng_for(seed, PROP, i, "plan")
    plan = core.random_plan(prng, len(files), budget=6_000_000)
    plan.hashseed = rng.getrandbits(32)
    scn0 = core.Scenario(files, argv, None, "UTC")
    scn1 = core.Scenario(files, opts + ["--summary"] + [f.path for f in files], None, "UTC")
    r0 = core.execute(scn0, plan)
    r1 = core.execute(scn1, plan)
    for r in (r0, r1):
        cr.runs += 1
        cr.steps += r.trace.steps
        cr.steps_max = max(cr.steps_max, r.trace.steps)
        cr.decision_hashes.append(r.trace.decision_hash())
        cr.arrival_hashes.append(r.trace.arrival_hash())
    cr.policies[plan.policy.split(":")[0]] += 1
    cr.probes["other_kinds_case"] += 1
    for k in kinds:
        cr.probes["kind_" + k] += 1
    cr.nontrivial_keys.append(core.derive(0, scn1.digest()))
    v = mergecheck.evaluate(r1, None, check_protocol=False) or mergecheck.evaluate(r0, None, check_protocol=False)
    if not v and r0.stdout != r1.stdout:
        v = [("summary_changes_stdout", mergecheck.show_diff(r1.stdout, r0.stdout))]
    if not v:
        sm = parse_summary(r1.stderr)
        if sm is None:
            v = [("summary_missing", "no Program Summary on stderr: %r" % r1.stderr[-300:])]
        else:
            def num(k, d):
                try:
                    return int(d.get(k, "").split()[0])
                except (ValueError, IndexError):
                    return None
            pb = num("Printed bytes", sm["total"])
            if pb != len(r1.stdout):
                v.append(("printed_bytes_differ_from_stdout", "Printed bytes %s but %d bytes were written to stdout" % (pb, len(r1.stdout))))
            total_msgs = sum(expect.values())
            fsum = 0
            nmsg = 0
            for path, d in sm["files"].items():
                fb = num("bytes", d)
                fsum += fb or 0
                want = expect.get(path)
                cnt = None
                for key in ("syslines", "journal events", "Events", "entries"):
                    if num(key, d) is not None:
                        cnt = num(key, d)
                        break
                if want is not None and cnt is not None:
                    nmsg += cnt
                    if cnt != want:
                        v.append(("per_file_count_differs", "%s: summary says %d messages printed, the file holds %d" % (path, cnt, want)))
                elif want:
                    v.append(("per_file_count_missing", "%s: no printed-message count in its summary section: %r" % (path, d)))
                # the first / last printed datetime of the file, where its section reports them
                chosen = sel.get(path)
                # (only where the file's printed messages are in time order: for a file whose stamps step backwards the
                # statement does not say whether "first" means first printed or earliest)
                if chosen and chosen == sorted(chosen) and "datetime first" in d and "datetime last" in d:
                    got_f, got_l = utc_paren(d["datetime first"]), utc_paren(d["datetime last"])
                    want_f, want_l = fmt_utc(chosen[0]), fmt_utc(chosen[-1])
                    if (got_f, got_l) != (want_f, want_l):
                        v.append(("per_file_printed_datetimes_differ", "%s: summary says first / last printed %s / %s, what was printed of it begins / ends at %s / %s" % (
                            path, got_f, got_l, want_f, want_l)))
            sepb = decor.unescape_separator(sep)
            if pb is not None and fsum + total_msgs * len(sepb) != pb and not v:
                # a supplied final newline belongs to no file either
                if fsum + total_msgs * len(sepb) + 1 != pb:
                    v.append(("per_file_bytes_do_not_add_up", "sum of per-file bytes %d + %d separators of %d bytes != total %s" % (
                        fsum, total_msgs, len(sepb), pb)))
    for (cls, detail) in v[:4]:
        rp = {"kind": "other_kinds", "scenario": scn1.to_json() if sum(len(f.data) for f in files) < 3_000_000 else None,
              "plan": plan.as_replay(r1.trace).to_json(), "class": cls, "expect": expect, "sep": sep}
        if rp["scenario"] is None:
            rp = None
        cr.violations.append(Violation(cls, "other kinds %s argv=%s: %s" % (sorted(expect.items()), argv, detail), rp, known=known_for(cls)))
    cr.sample = {"argv": scn1.argv, "kinds": kinds, "messages_per_file": expect}
    return cr


def run_case(seed, i, tier):
    if i % 6 == 5:
        return run_other_kinds_case(seed, i, tier)
    rng = core.rng_for(seed, PROP, i)
    srcs, opts, dec, colour, tz_env, a, b = gen_case(rng)
    exp_stdout, ex = expectations(srcs, dec, a, b)
    cr = CaseResult()
    prng = core.rng_for(seed, PROP, i, "plan")
    plan = core.random_plan(prng, mergecheck.n_workers(srcs), budget=3_000_000)
    plan.hashseed = rng.getrandbits(32)
    plan.now = (1_600_000_000 + rng.randrange(0, 10**8), rng.randrange(10**9))
    _, r0 = mergecheck.run_once(srcs, opts, plan, tz_env)
    _, r1 = mergecheck.run_once(srcs, opts + ["--summary"], plan, tz_env)
    for r in (r0, r1):
        cr.runs += 1
        cr.steps += r.trace.steps
        cr.steps_max = max(cr.steps_max, r.trace.steps)
        cr.decision_hashes.append(r.trace.decision_hash())
        cr.arrival_hashes.append(r.trace.arrival_hash())
    cr.policies[plan.policy.split(":")[0]] += 1
    cr.probes["colour_" + colour] += 1
    if a is not None or b is not None:
        cr.probes["with_window"] += 1
    if dec.sep:
        cr.probes["with_separator"] += 1
    if ex["added_nl"]:
        cr.probes["supplied_final_newline"] += 1
    if dec.file_mode or dec.dt_off is not None:
        cr.probes["decorated"] += 1
    cr.nontrivial_keys.append(core.derive(0, merge.scenario_for(srcs, opts, tz_env).digest()))
    cr.clock_span = (plan.now[0], plan.now[0])
    vs = check(r0, r1, exp_stdout, ex, colour, a, b)
    for (cls, detail) in vs[:4]:
        rp = {"sources": mergecheck.sources_to_json(srcs), "opts": opts, "tz": tz_env, "dec": dec.__dict__, "colour": colour,
              "a": a, "b": b, "plan": plan.as_replay(r1.trace).to_json(), "class": cls}
        cr.violations.append(Violation(cls, "opts=%s TZ=%s sources=%s: %s" % (opts, tz_env, merge.describe(srcs), detail), rp,
                                       known=known_for(cls)))
    cr.sample = {"argv": opts + ["--summary"] + [s.path for s in srcs], "TZ": tz_env, "sources": merge.describe(srcs),
                 "model": {k: ex[k] for k in ("lines", "syslines", "seps", "added_nl")}}
    return cr


def classes_of(rp):
    srcs = mergecheck.sources_from_json(rp["sources"])
    d = rp["dec"]
    dec = decor.Decoration(d["file_mode"], d["align"], d["dt_off"], d["dt_format"], d["psep"], d["sep"])
    plan = core.Plan.from_json(rp["plan"])
    exp_stdout, ex = expectations(srcs, dec, rp["a"], rp["b"])
    _, r0 = mergecheck.run_once(srcs, rp["opts"], plan, rp["tz"])
    _, r1 = mergecheck.run_once(srcs, rp["opts"] + ["--summary"], plan, rp["tz"])
    return set(c for (c, _) in check(r0, r1, exp_stdout, ex, rp["colour"], rp["a"], rp["b"]))


def replay(rp):
    cl = classes_of(rp)
    return (rp.get("class") in cl) if rp.get("class") else bool(cl)


RULE = ("one case = 1..4 generated text sources (incl. sources that print nothing), decoration options drawn as in C13 "
        "(they change the byte counts), optional -a/-b window, run once without and once with --summary under the same "
        "plan; non-trivial = every pair; distinct = scenario digest")
ASSUMPTIONS = ["the summary's datetimes have one-second resolution; the model truncates instants to the second",
               "exact byte / line / date models for text sources; for journal, event-log and accounting sources (one case in six) the conservation equations only: stdout unchanged, total bytes == stdout, per-file message counts == what the independent readers / generators say, per-file bytes + separators == total"]


def main(tier):
    n = 1500 if tier == "quick" else 80000
    cap = 300 if tier == "quick" else 1500
    return engine.run_check(PROP, "c19", tier, n, cap, "exploration", RULE, ASSUMPTIONS)
