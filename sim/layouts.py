"""Accounting-record layouts, transcribed from the C structs the project documents in
src/data/fixedstruct.rs (field offsets and sizes; all little-endian). Only what the generator needs:
record size, time fields, and the string fields that carry the per-record markers.

A realistic record of each layout is taken from a shipped file (template) so the other fields hold
plausible values; the generator overwrites time and marker fields only.
"""
import os
import struct

from build import REPO

# name: (size, sec_off, sec_size, usec_off, usec_size, [(field, off, size)...], file name to use, template fixture, ut_type_off)
LAYOUTS = {
    "linux_x86_utmpx": (384, 340, 4, 344, 4, [("ut_line", 8, 32), ("ut_user", 44, 32), ("ut_host", 76, 256)], "wtmp",
                        "logs/CentOS7/x86_64/wtmp", 0),
    "linux_arm64_utmpx": (400, 344, 8, 352, 8, [("ut_line", 8, 32), ("ut_user", 44, 32), ("ut_host", 76, 256)], "wtmp",
                          "logs/Debian11/aarch64_ARM64/wtmp", 0),
    "linux_x86_lastlog": (292, 0, 4, None, 0, [("ll_line", 4, 32), ("ll_host", 36, 256)], "lastlog",
                          "logs/OpenSUSE15/lastlog", None),
    "linux_arm64_lastlog": (296, 0, 8, None, 0, [("ll_line", 8, 32), ("ll_host", 40, 256)], "lastlog",
                            "logs/Debian11/aarch64_ARM64/lastlog", None),
    "linux_x86_acct_v3": (64, 24, 4, None, 0, [("ac_comm", 48, 16)], "pacct", "logs/CentOS7/pacct", None),
    "netbsd_x8632_acct": (56, 24, 8, None, 0, [("ac_comm", 0, 16)], "acct", "logs/NetBSD9.3/x86_32/acct", None),
    "netbsd_x8632_utmpx": (516, 464, 8, 472, 4, [("ut_name", 0, 32), ("ut_line", 36, 32), ("ut_host", 68, 256)], "utmpx",
                           "logs/NetBSD9.3/x86_32/utmpx", 326),
    "netbsd_x8664_utmpx": (520, 464, 8, 472, 4, [("ut_user", 0, 32), ("ut_line", 36, 32), ("ut_host", 68, 256)], "utmpx",
                           "logs/NetBSD9.3/x86_64/utmpx", 326),
    "netbsd_x8664_utmp": (40, 32, 8, None, 0, [("ut_line", 0, 8), ("ut_name", 8, 8), ("ut_host", 16, 16)], "wtmp",
                          "logs/NetBSD9.3/x86_64/wtmp", None),
    "netbsd_x8664_lastlog": (32, 0, 8, None, 0, [("ll_line", 8, 8), ("ll_host", 16, 16)], "lastlog",
                             "logs/NetBSD9.3/x86_64/lastlog", None),
    "openbsd_x86_utmp": (304, 296, 8, None, 0, [("ut_line", 0, 8), ("ut_name", 8, 32), ("ut_host", 40, 256)], "wtmp",
                         "logs/OpenBSD7.4/x86_64/wtmp", None),
    # FreeBSD's in-memory struct utmpx (the on-disk utx.* files are variable-length and not this layout; no shipped file
    # has it, so the template record is synthetic: USER_PROCESS, id "ab12", pid 4321)
    "freebsd_x8664_utmpx": (280, 8, 8, 16, 8, [("ut_user", 36, 32), ("ut_line", 68, 16), ("ut_host", 84, 128)], "utmpx",
                            None, 0),
    # Linux acct (version 0 records: no ac_version byte; same size as acct_v3) and NetBSD x86_32 lastlogx: no shipped
    # file has these layouts, the template records are synthetic
    "linux_x86_acct": (64, 8, 4, None, 0, [("ac_comm", 36, 17)], "pacct", None, None),
    "netbsd_x8632_lastlogx": (428, 0, 8, 8, 4, [("ll_line", 12, 32), ("ll_host", 44, 256)], "lastlogx", None, None),
    "openbsd_x86_lastlog": (272, 0, 8, None, 0, [("ll_line", 8, 8), ("ll_host", 16, 256)], "lastlog",
                            "logs/OpenBSD7.4/x86_64/lastlog", None),
}

_TEMPLATES = {}


def template(name):
    """first non-null record of the shipped file (realistic field values for the layout's scoring)"""
    if name in _TEMPLATES:
        return _TEMPLATES[name]
    size = LAYOUTS[name][0]
    rel = LAYOUTS[name][7]
    if rel is None and name == "linux_x86_acct":
        r = bytearray(size)
        r[0] = 2                                                   # ac_flag ASU
        struct.pack_into("<HHH", r, 2, 1000, 1000, 0x8801)         # uid, gid, tty
        struct.pack_into("<I", r, 8, 1_600_000_000)
        struct.pack_into("<10H", r, 12, 1, 2, 3, 4, 5, 6, 7, 8, 9, 10)
        r[36:38] = b"zc"
        _TEMPLATES[name] = bytes(r)
        return _TEMPLATES[name]
    if rel is None and name == "netbsd_x8632_lastlogx":
        r = bytearray(size)
        struct.pack_into("<qi", r, 0, 1_600_000_000, 0)
        r[12:14], r[44:46] = b"zl", b"zh"
        _TEMPLATES[name] = bytes(r)
        return _TEMPLATES[name]
    if rel is None:
        r = bytearray(size)
        struct.pack_into("<h", r, 0, 7)
        struct.pack_into("<qq", r, 8, 1_600_000_000, 0)
        r[24:28] = b"ab12"
        struct.pack_into("<i", r, 32, 4321)
        r[36:38], r[68:70], r[84:86] = b"zu", b"zl", b"zh"      # non-empty so each value can be located in the printed line
        _TEMPLATES[name] = bytes(r)
        return _TEMPLATES[name]
    data = open(os.path.join(REPO, rel), "rb").read()
    rec = None
    for off in range(0, len(data) - size + 1, size):
        r = data[off:off + size]
        if any(r) and time_of(name, r)[0] > 1000:
            rec = r
            break
    if rec is None:
        raise RuntimeError("no usable template record in %s" % rel)
    _TEMPLATES[name] = rec
    return rec


def time_of(name, rec):
    size, so, ss, uo, us, *_ = LAYOUTS[name]
    sec = int.from_bytes(rec[so:so + ss], "little", signed=True)
    usec = int.from_bytes(rec[uo:uo + us], "little", signed=True) if uo is not None else 0
    return sec, usec


def make_record(name, sec, usec, markers):
    """template record with its time and marker fields overwritten. markers: {field: bytes}"""
    size, so, ss, uo, us, fields, *_ = LAYOUTS[name]
    r = bytearray(template(name))
    r[so:so + ss] = int(sec).to_bytes(ss, "little", signed=True)
    if uo is not None:
        r[uo:uo + us] = int(usec).to_bytes(us, "little", signed=True)
    for (f, off, sz) in fields:
        v = markers.get(f, b"")
        assert len(v) < sz, (f, v, sz)
        r[off:off + sz] = v + b"\x00" * (sz - len(v))
    return bytes(r)


def null_record(name):
    return b"\x00" * LAYOUTS[name][0]
