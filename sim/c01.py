"""C01 -- merged output is chronological, with a deterministic tie rule.

Reference model: greedy head merge by (instant, source index) over per-source sequences known by
construction; source index = command-line order, or component-wise sorted path order inside a walked
directory. Oracles: stdout == model byte for byte; trace invariants I1/I2 (printed = minimum over
the pending set, pending set = live set); per-source FIFO. Each scenario runs under K schedules.
"""
import core
import engine
import merge
import mergecheck
import tracecheck
import world
from engine import Violation, CaseResult

PROP = "C01"


def walk_order_key(path):
    return tuple(c.encode("utf-8", "surrogateescape") for c in path.split("/"))


def gen_case(rng):
    bsz = rng.choice((128, 256, 512, 1024, 4096, 65536))
    n = rng.choice((1, 2, 2, 3, 3, 4, 5, 6))
    form = rng.choice(("args", "args", "args_permuted", "dir", "dir_plus_args"))
    srcs = merge.gen_sources(rng, n, bsz, max_msgs=rng.choice((4, 12, 40)),
                             containers=("plain", "plain", "plain", "gz", "bz2", "xz", "lz4"),
                             allow_degenerate=rng.random() < 0.3, first_line_max=None)
    opts = ["--color", "never", "--blocksz", str(bsz), "--tz-offset", "+00:00"]
    args = None
    if form == "args_permuted":
        rng.shuffle(srcs)
    elif form in ("dir", "dir_plus_args"):
        # place the sources in a tree; s4 is given the directory
        sub = ("", "a/", "a/b/", "b/", "a.d/", "B/")
        k_dir = len(srcs) if form == "dir" else rng.randint(1, len(srcs))
        for s in srcs[:k_dir]:
            s.path = "d/" + rng.choice(sub) + s.path
        indir = sorted(srcs[:k_dir], key=lambda s: walk_order_key(s.path))
        rest = srcs[k_dir:]
        if rng.random() < 0.5:
            srcs = indir + rest
            args = ["d"] + [s.path for s in rest]
        else:
            srcs = rest + indir
            args = [s.path for s in rest] + ["d"]
        # files that do not exist cannot be found by a walk
        srcs = [s for s in srcs if not (s.kind == "missing" and s.path.startswith("d/"))]
    return bsz, form, srcs, opts, args


def run_case(seed, i, tier):
    rng = core.rng_for(seed, PROP, i)
    K = 2 if tier == "quick" else 6
    bsz, form, srcs, opts, args = gen_case(rng)
    expected = merge.model_stdout(srcs)
    nw = mergecheck.n_workers(srcs)
    budget = mergecheck.step_budget(srcs, bsz)
    hashseed = rng.getrandbits(32)
    cr = CaseResult()
    files = [core.FileSpec(s.path, s.stored, s.mtime) for s in srcs if s.stored is not None]
    # creation order on disk is part of the scenario (readdir order must not matter)
    rng.shuffle(files)
    argv = list(opts) + (args if args is not None else [s.path for s in srcs])
    dirs = ["d"] if args is not None else []
    scn = core.Scenario(files, argv, None, "UTC", dirs)
    ties = len(set((m.instant) for s in srcs for m in s.msgs)) < sum(len(s.msgs) for s in srcs)
    for k in range(K):
        prng = core.rng_for(seed, PROP, i, "plan", k)
        plan = core.random_plan(prng, nw, budget=budget)
        plan.hashseed = hashseed
        res = core.execute(scn, plan)
        if res.timed_out:
            res = core.execute(scn, plan, wall_cap=120.0)
        cr.runs += 1
        tr = res.trace
        cr.steps += tr.steps
        cr.steps_max = max(cr.steps_max, tr.steps)
        cr.policies[plan.policy.split(":")[0]] += 1
        cr.probes.update(tracecheck.probes(tr))
        if ties:
            cr.probes["scenario_has_equal_instants"] += 1
        cr.decision_hashes.append(tr.decision_hash())
        cr.arrival_hashes.append(tr.arrival_hash())
        cr.faults["schedule_perturbation"] += 1
        if nw >= 2:
            cr.nontrivial_keys.append(core.derive(0, "%s|%s" % (scn.digest(), tr.arrival_hash())))
        vs = mergecheck.evaluate(res, expected)
        for (cls, detail) in vs:
            rp = {"kind": "scenario", "scenario": scn.to_json(), "plan": plan.as_replay(tr).to_json(),
                  "expected_b64": __import__("base64").b64encode(expected).decode(), "class": cls}
            cr.violations.append(Violation(cls, "form=%s bsz=%d schedule#%d policy=%s argv=%s: %s" % (
                form, bsz, k, plan.policy, argv, detail), rp))
        if vs:
            break
    if True:
        cr.sample = {"form": form, "argv": argv, "sources": merge.describe(srcs), "schedules": K,
                     "expected_stdout_head": expected[:200].decode("latin-1")}
    return cr


def classes_of(rp):
    import base64
    scn = core.Scenario.from_json(rp["scenario"])
    plan = core.Plan.from_json(rp["plan"])
    res = core.execute(scn, plan)
    return set(c for (c, _) in mergecheck.evaluate(res, base64.b64decode(rp["expected_b64"])))


def replay(rp):
    cl = classes_of(rp)
    return (rp.get("class") in cl) if rp.get("class") else bool(cl)


def minimise(rp, cls):
    """schedule only (the scenario is kept: its expected output was computed by the model)"""
    import json
    cur = json.loads(json.dumps(rp))
    ch = cur["plan"].get("choices") or []
    lo, hi = 0, len(ch)
    runs = 0
    while lo < hi and runs < 40:
        mid = (lo + hi) // 2
        cand = json.loads(json.dumps(cur))
        cand["plan"]["choices"] = ch[:mid]
        runs += 1
        if cls in classes_of(cand):
            hi = mid
        else:
            lo = mid + 1
    cand = json.loads(json.dumps(cur))
    cand["plan"]["choices"] = ch[:hi]
    if cls in classes_of(cand):
        cur = cand
    return cur


RULE = ("one case = 1..6 generated text sources (plain/gz/bz2/xz/lz4; instants drawn from a small pool so ties "
        "inside and across sources are the norm; equal instants written with different UTC offsets; 1..9 "
        "fractional digits) named as arguments, permuted, or placed in a walked directory tree, executed under K "
        "schedules; non-trivial = >=2 live worker threads; distinct = (scenario digest, arrival sequence) pairs")
ASSUMPTIONS = ["text sources only in this check (accounting, journal and evtx sources are merged in C08/C09/C10 runs)",
               "model = greedy head merge by (instant, source index), written from the statement",
               "sampling, not enumeration"]


def main(tier):
    n = 500 if tier == "quick" else 20000
    cap = 240 if tier == "quick" else 1500
    return engine.run_check(PROP, "c01", tier, n, cap, "exploration", RULE, ASSUMPTIONS)
