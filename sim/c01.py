"""C01 -- merged output is chronological, with a deterministic tie rule.

Reference model: greedy head merge by (instant, source index) over per-source sequences known by
construction; source index = command-line order, or component-wise sorted path order inside a walked
directory. Oracles: stdout == model byte for byte; trace invariants I1/I2 (printed = minimum over
the pending set, pending set = live set); per-source FIFO. Each scenario runs under K schedules.
"""
import core
import engine
import merge
import mergecheck
import tracecheck
import world
from engine import Violation, CaseResult

PROP = "C01"


def walk_order_key(path):
    return tuple(c.encode("utf-8", "surrogateescape") for c in path.split("/"))


def gen_case(rng):
    bsz = rng.choice((128, 256, 512, 1024, 4096, 65536))
    n = rng.choice((1, 2, 2, 3, 3, 4, 5, 6))
    form = rng.choice(("args", "args", "args_permuted", "dir", "dir_plus_args", "args_stdin"))
    srcs = merge.gen_sources(rng, n, bsz, max_msgs=rng.choice((4, 12, 40)),
                             containers=("plain", "plain", "plain", "gz", "bz2", "xz", "lz4"),
                             allow_degenerate=rng.random() < 0.3, first_line_max=None)
    opts = ["--color", "never", "--blocksz", str(bsz), "--tz-offset", "+00:00"]
    args = None
    if form == "args_permuted":
        rng.shuffle(srcs)
    if form in ("args", "args_permuted") and rng.random() < 0.12:
        # the same file named twice: two sources with the same content; every one of its messages ties with its twin and
        # the tie rule (argument order) decides
        present = [s_ for s_ in srcs if s_.kind == "text"]
        if present:
            srcs.insert(rng.randrange(len(srcs) + 1), rng.choice(present))
    elif form in ("dir", "dir_plus_args"):
        # place the sources in a tree; s4 is given the directory
        sub = ("", "a/", "a/b/", "b/", "a.d/", "B/")
        k_dir = len(srcs) if form == "dir" else rng.randint(1, len(srcs))
        for s in srcs[:k_dir]:
            s.path = "d/" + rng.choice(sub) + s.path
        indir = sorted(srcs[:k_dir], key=lambda s: walk_order_key(s.path))
        rest = srcs[k_dir:]
        k_before = rng.randint(0, len(rest))      # the directory stands first, last or among the explicit arguments
        before, after = rest[:k_before], rest[k_before:]
        srcs = before + indir + after
        args = [s.path for s in before] + ["d"] + [s.path for s in after]
        # files that do not exist cannot be found by a walk
        srcs = [s for s in srcs if not (s.kind == "missing" and s.path.startswith("d/"))]
    if form == "args_stdin":
        # some of the sources named through '-': the paths on standard input stand where the '-' stands
        paths = [s.path for s in srcs]
        j = rng.randint(0, len(paths))
        k = rng.randint(j, len(paths))
        args = (paths[:j] + ["-"] + paths[k:], ("\n".join(paths[j:k]) + ("\n" if rng.random() < 0.7 else "")).encode("utf-8") if paths[j:k] else b"")
    return bsz, form, srcs, opts, args


MARK = "<#M#>"
_SOLO = {}


def solo_messages(kind, name, data, path, opts):
    """per-source message sequence of a non-text source, from a solo run split on the separator marker
    (the greedy head merge of the statement is then applied to these sequences)"""
    key = (kind, name, tuple(opts))
    if key in _SOLO:
        return _SOLO[key]
    scn = core.Scenario([core.FileSpec(path, data, 1600000000)], list(opts) + [path], None, "UTC")
    fps, core.FINGERPRINTS = core.FINGERPRINTS, None     # a per-process cached auxiliary run: not part of any case's fingerprint
    try:
        res = core.execute(scn, core.Plan(seed=1, policy="lowest"))
    finally:
        core.FINGERPRINTS = fps
    parts = res.stdout.split(MARK.encode())
    tail = parts.pop()
    msgs = [p + MARK.encode() for p in parts]
    if name in ("pnp", "u22x3", "ubuntu16"):      # shipped inputs recur; generated ones are unique to their case
        _SOLO[key] = (msgs, tail, res.rc)
    return (msgs, tail, res.rc)


def run_mixed_case(seed, i, tier, K=None, compare_schedules=False):
    """sources of different kinds in one run: shipped evtx + shipped journal + generated accounting file + generated text"""
    import c08
    import c09
    import c10
    import fixtures
    import layouts
    rng = core.rng_for(seed, PROP, i)
    opts = ["--color", "never", "--tz-offset", "+00:00", "--separator", MARK]
    kinds = rng.sample(("evtx", "journal", "gjournal", "gjournal2", "utmp", "text", "text2"), rng.randint(2, 4))
    srcs = []     # (path, data, [(instant_ns, bytes)])
    NS = 1_000_000_000
    # the shipped inputs live in these time ranges; generated sources are placed inside them so the merge interleaves
    if rng.random() < 0.5:
        evtx_data, evtx_recs, _, evtx_pattern = c10.restamped(rng)      # the shipped records under other creation times (ties, reversed, ...)
    else:
        evtx_data, evtx_recs, evtx_pattern = fixtures.load("pnp"), c10.dump("pnp"), None
    t_lo = min(t for (_, _, t) in evtx_recs)
    t_hi = max(t for (_, _, t) in evtx_recs)
    for k in kinds:
        if k == "evtx":
            data = evtx_data
            msgs, tail, _ = solo_messages("evtx", "pnp" if evtx_pattern is None else "pnp-%d-%s" % (i, evtx_pattern), data, "e.evtx", opts)
            order = sorted(evtx_recs, key=lambda r: (r[2], r[0]))
            if len(msgs) != len(order):
                continue
            srcs.append(("e.evtx", data, [(order[j][2], msgs[j]) for j in range(len(msgs))]))
        elif k == "journal":
            jn = rng.choice(("u22x3", "ubuntu16"))
            data = fixtures.load(jn)
            ents = c09.dump(jn)
            msgs, tail, _ = solo_messages("journal", jn, data, "j.journal", opts)
            if len(msgs) != len(ents):
                continue
            srcs.append(("j.journal", data, [(ents[j]["rt"] * 1000, msgs[j]) for j in range(len(msgs))]))
        elif k in ("gjournal", "gjournal2"):
            # generated journal (sim/journalgen.py) whose receive times fall on / between the other sources' instants
            import journalgen
            n = rng.randint(1, 12)
            inst = sorted((rng.randint(t_lo, t_hi) // 1000 if rng.random() < 0.5 else rng.choice(evtx_recs)[2] // 1000) for _ in range(n))
            gents = journalgen.gen_entries(rng, n, tag=b"G" if k == "gjournal" else b"H")
            for (e, t_us) in zip(gents, inst):
                e.rt = t_us
                e.fields.append((b"_BOOT_ID", e.boot.hex().encode()))
            data = journalgen.build(gents, rng)
            ents = c09.dump_bytes(data)
            if [e["rt"] for e in ents] != inst:
                raise RuntimeError("generated journal is not read back as written")
            path = "g.journal" if k == "gjournal" else "h.journal"
            msgs, tail, _ = solo_messages("journal", "gen-%d-%s" % (i, k), data, path, opts)
            if len(msgs) != len(ents):
                continue
            srcs.append((path, data, [(inst[j] * 1000, msgs[j]) for j in range(len(msgs))]))
        elif k == "utmp":
            name = rng.choice(sorted(layouts.LAYOUTS))
            size, so, ss, uo, us, fields, fname, *_ = layouts.LAYOUTS[name]
            n = rng.randint(1, 12)
            recs = []
            raw = bytearray()
            for j in range(n):
                sec = rng.randint(t_lo // NS - 3600, t_hi // NS + 3600) if rng.random() < 0.7 else rng.choice(evtx_recs)[2] // NS
                usec = 0 if uo is None else rng.choice((0, rng.randrange(1000000)))
                mk = {f: ({"ut_line": b"t", "ll_line": b"t", "ut_user": b"u", "ut_name": b"u", "ut_host": b"h", "ll_host": b"h", "ac_comm": b"c"}[f] + b"%03d" % j)
                      for (f, _, _) in fields}
                raw += layouts.make_record(name, sec, usec, mk)
                recs.append((sec * NS + usec * 1000, j))
            others = sorted(set(v[0] for v in layouts.LAYOUTS.values()) | {280, 428, 432})
            for _ in range(12):
                if not [o for o in others if o != size and size % o != 0 and len(raw) % o == 0]:
                    break
                raw += layouts.null_record(name)
            msgs, tail, _ = solo_messages("utmp", "%s-%d" % (name, i), bytes(raw), fname, opts)
            order = sorted(recs)
            if len(msgs) != len(order):
                continue
            srcs.append((fname, bytes(raw), [(order[j][0], msgs[j]) for j in range(len(msgs))]))
        else:
            n = rng.randint(1, 15)
            inst = sorted((rng.randint(t_lo, t_hi) // 1_000_000 * 1_000_000 if rng.random() < 0.6 else rng.choice(evtx_recs)[2] // 1000 * 1000)
                          for _ in range(n))
            p = world.TextLogParams(notation=rng.choice((1, 2)), off_min=rng.choice((0, 60, -300, 330)), n_msgs=n,
                                    src_letter=b"X" if k == "text" else b"Y", instants=inst, frac_digits=6, cont_p=0.2)
            content, tm, _ = world.gen_text_log(rng, p)
            path = "x.log" if k == "text" else "y.log"
            ms = []
            for j, m in enumerate(tm):
                d = m.data + MARK.encode()
                if j == len(tm) - 1 and not m.data.endswith(b"\n"):
                    d += b"\n"
                ms.append((m.instant, d))
            srcs.append((path, content, ms))
    cr = CaseResult()
    if len(srcs) < 2:
        return cr
    # stored forms: journals and event logs in a container are unpacked into temporary files by their workers, side by side;
    # an event log without events beside them finishes before the others have begun
    if rng.random() < 0.5:
        srcs.append(("n.evtx", fixtures.load("noevents"), []))
        if rng.random() < 0.5:
            srcs.append(("n2.evtx", fixtures.load("noevents"), []))
        packed = []
        for (path, data, ms) in srcs:
            if (path.endswith(".evtx") or path.endswith(".journal")) and len(data) < 3_000_000 and rng.random() < 0.9:
                form = rng.choice(("gz", "gz", "xz", "lz4"))
                data, _ = world.random_container(rng, form, data, 1600000000, path)
                path += world.SUFFIX[form]
            packed.append((path, data, ms))
        srcs = packed
        cr.probes["mixed_case_with_stored_journals_and_event_logs"] += 1
    rng.shuffle(srcs)
    heads = [0] * len(srcs)
    expected = bytearray()
    while True:
        best = None
        for si, (_, _, ms) in enumerate(srcs):
            if heads[si] < len(ms):
                key = (ms[heads[si]][0], si)
                if best is None or key < best:
                    best = key
        if best is None:
            break
        si = best[1]
        expected += srcs[si][2][heads[si]][1]
        heads[si] += 1
    expected = bytes(expected)
    scn = core.Scenario([core.FileSpec(p, d, 1600000000) for (p, d, _) in srcs], opts + [p for (p, _, _) in srcs], None, "UTC")
    if K is None:
        K = 2 if tier == "quick" else 4
    ref = None
    for k in range(K):
        prng = core.rng_for(seed, PROP, i, "plan", k)
        plan = core.random_plan(prng, len(srcs), budget=6_000_000)
        plan.hashseed = rng.getrandbits(32)
        res = core.execute(scn, plan)
        tr = res.trace
        cr.runs += 1
        cr.steps += tr.steps
        cr.steps_max = max(cr.steps_max, tr.steps)
        cr.policies[plan.policy.split(":")[0]] += 1
        cr.probes.update(tracecheck.probes(tr))
        cr.probes["mixed_kinds_run"] += 1
        for (p, _, _) in srcs:
            cr.probes["kind_" + p.split(".")[-1]] += 1
        cr.decision_hashes.append(tr.decision_hash())
        cr.arrival_hashes.append(tr.arrival_hash())
        cr.faults["schedule_perturbation"] += 1
        cr.nontrivial_keys.append(core.derive(0, "%s|%s" % (scn.digest(), tr.arrival_hash())))
        vs = mergecheck.evaluate(res, expected)
        if compare_schedules:
            if ref is None:
                ref = (res.stdout, res.rc)
            elif res.stdout != ref[0]:
                vs.append(("stdout_differs_across_schedules", mergecheck.show_diff(res.stdout, ref[0])))
            elif res.rc != ref[1]:
                vs.append(("exit_status_differs_across_schedules", "exit %s vs %s" % (res.rc, ref[1])))
        for (cls, detail) in vs:
            rp = {"kind": "scenario", "scenario": scn.to_json() if sum(len(d) for (_, d, _) in srcs) < 3_000_000 else None,
                  "plan": plan.as_replay(tr).to_json(), "expected_b64": __import__("base64").b64encode(expected).decode(), "class": cls}
            if rp["scenario"] is None:
                continue
            cr.violations.append(Violation(cls, "mixed kinds %s schedule#%d policy=%s: %s" % ([p for (p, _, _) in srcs], k, plan.policy, detail), rp))
        if vs:
            if not cr.violations:
                cr.violations.append(Violation(vs[0][0], "mixed kinds %s (too large to inline): %s" % ([p for (p, _, _) in srcs], vs[0][1]), None))
            break
    cr.sample = {"form": "mixed_kinds", "argv": scn.argv, "sources": [(p, len(d), len(ms)) for (p, d, ms) in srcs]}
    return cr


def run_case(seed, i, tier):
    if i % 5 == 4:
        return run_mixed_case(seed, i, tier)
    rng = core.rng_for(seed, PROP, i)
    K = 2 if tier == "quick" else 6
    bsz, form, srcs, opts, args = gen_case(rng)
    if rng.random() < 0.15:
        # the merge seen through a per-file printer: every line carries its file's name, and some messages are larger than
        # a printer's staging buffer (a printer that holds part of a message back would let later messages overtake it)
        import decor
        for s_ in srcs:
            if rng.random() < 0.6:
                merge.inflate_message(rng, s_, rng.choice(("many_lines", "many_lines", "long_line")))
        mode = rng.choice(("name", "path"))
        opts = list(opts) + ["-n" if mode == "name" else "-p"]
        dec = decor.Decoration(mode, False, None, None, ":", "")
        merged = merge.model_merge(srcs)
        expected = decor.model_stdout(srcs, merged, dec)
        form += "+file_prefix"
    else:
        expected = merge.model_stdout(srcs)
    nw = mergecheck.n_workers(srcs)
    budget = mergecheck.step_budget(srcs, bsz)
    hashseed = rng.getrandbits(32)
    cr = CaseResult()
    files = [core.FileSpec(s.path, s.stored, s.mtime) for s in srcs if s.stored is not None]
    # creation order on disk is part of the scenario (readdir order must not matter)
    rng.shuffle(files)
    stdin = None
    if isinstance(args, tuple):
        args, stdin = args
    argv = list(opts) + (args if args is not None else [s.path for s in srcs])
    dirs = ["d"] if (args is not None and "d" in args and stdin is None) else []
    scn = core.Scenario(files, argv, stdin, "UTC", dirs)
    ties = len(set((m.instant) for s in srcs for m in s.msgs)) < sum(len(s.msgs) for s in srcs)
    for k in range(K):
        prng = core.rng_for(seed, PROP, i, "plan", k)
        plan = core.random_plan(prng, nw, budget=budget)
        plan.hashseed = hashseed
        res = core.execute(scn, plan)
        cr.runs += 1
        tr = res.trace
        cr.steps += tr.steps
        cr.steps_max = max(cr.steps_max, tr.steps)
        cr.policies[plan.policy.split(":")[0]] += 1
        cr.probes.update(tracecheck.probes(tr))
        if ties:
            cr.probes["scenario_has_equal_instants"] += 1
        cr.decision_hashes.append(tr.decision_hash())
        cr.arrival_hashes.append(tr.arrival_hash())
        cr.faults["schedule_perturbation"] += 1
        if nw >= 2:
            cr.nontrivial_keys.append(core.derive(0, "%s|%s" % (scn.digest(), tr.arrival_hash())))
        vs = mergecheck.evaluate(res, expected)
        for (cls, detail) in vs:
            rp = {"kind": "scenario", "scenario": scn.to_json(), "plan": plan.as_replay(tr).to_json(),
                  "expected_b64": __import__("base64").b64encode(expected).decode(), "class": cls}
            cr.violations.append(Violation(cls, "form=%s bsz=%d schedule#%d policy=%s argv=%s: %s" % (
                form, bsz, k, plan.policy, argv, detail), rp))
        if vs:
            break
    if True:
        cr.sample = {"form": form, "argv": argv, "sources": merge.describe(srcs), "schedules": K,
                     "expected_stdout_head": expected[:200].decode("latin-1")}
    return cr


def classes_of(rp):
    import base64
    scn = core.Scenario.from_json(rp["scenario"])
    plan = core.Plan.from_json(rp["plan"])
    res = core.execute(scn, plan)
    return set(c for (c, _) in mergecheck.evaluate(res, base64.b64decode(rp["expected_b64"])))


def replay(rp):
    cl = classes_of(rp)
    return (rp.get("class") in cl) if rp.get("class") else bool(cl)


def minimise(rp, cls):
    """schedule only (the scenario is kept: its expected output was computed by the model)"""
    import json
    cur = json.loads(json.dumps(rp))
    ch = cur["plan"].get("choices") or []
    lo, hi = 0, len(ch)
    runs = 0
    while lo < hi and runs < 40:
        mid = (lo + hi) // 2
        cand = json.loads(json.dumps(cur))
        cand["plan"]["choices"] = ch[:mid]
        runs += 1
        if core.budget_ok() and cls in classes_of(cand):
            hi = mid
        else:
            lo = mid + 1
    cand = json.loads(json.dumps(cur))
    cand["plan"]["choices"] = ch[:hi]
    if core.budget_ok() and cls in classes_of(cand):
        cur = cand
    return cur


RULE = ("one case = 1..6 generated text sources (plain/gz/bz2/xz/lz4; instants drawn from a small pool so ties "
        "inside and across sources are the norm; equal instants written with different UTC offsets; 1..9 "
        "fractional digits) named as arguments, permuted, or placed in a walked directory tree, executed under K "
        "schedules; non-trivial = >=2 live worker threads; distinct = (scenario digest, arrival sequence) pairs")
ASSUMPTIONS = ["one case in five merges sources of different kinds (shipped evtx, shipped journal, generated accounting file, generated text): "
               "per-source message sequences come from a solo run split on a separator marker, their instants from the independent readers / the generator",
               "model = greedy head merge by (instant, source index), written from the statement",
               "sampling, not enumeration"]


def main(tier):
    n = 500 if tier == "quick" else 20000
    cap = 240 if tier == "quick" else 1500
    return engine.run_check(PROP, "c01", tier, n, cap, "exploration", RULE, ASSUMPTIONS)
