"""C05 -- compression and archiving are transparent.

Metamorphic oracle: the same bytes stored plain vs .gz / .bz2 / .xz / .lz4 / member of a .tar, same
options, datetime window and block size => same stdout. Codec parameters vary per run (compression
level incl. stored blocks, gzip header fields, LZ4 frame block size / stored vs compressed blocks /
checksums, tar format and neighbouring members) so the decoder hands data back in chunks of varying
size against the block size. Text logs (generated; model-checked too), accounting files, evtx and
journal (shipped).
"""
import base64
import os

import core
import engine
import fixtures
import merge
import mergecheck
import world
from c07 import UTMP_FIXTURES, utmp_fixture
from engine import Violation, CaseResult

PROP = "C05"
FORMS = ("gz", "bz2", "xz", "lz4", "tar")


def fmt_bound(ns):
    """-a/-b argument with microsecond precision in UTC"""
    secs, rem = divmod(ns, 1_000_000_000)
    y, mo, d, h, mi, s, _ = world.civil(secs * 1_000_000_000, 0)
    return "%04d-%02d-%02dT%02d:%02d:%02d.%06d+00:00" % (y, mo, d, h, mi, s, rem // 1000)


def gen_case(rng, tier):
    k = rng.choice(("text", "text", "text", "text", "utmp", "utmp", "evtx", "journal", "yearless"))
    opts = ["--color", "never", "--tz-offset", "+00:00"]
    msgs = None
    window = None
    if k == "text":
        bsz = rng.choice((64, 100, 128, 256, 1000, 4096, 65536))
        size_class = rng.choice(("small", "small", "one_block", "exact_multiple", "many_blocks", "many_blocks", "spans_codec_blocks"))
        if size_class == "spans_codec_blocks":
            # larger than one internal block of the codecs (bzip2 -1: 100 kB, deflate stored blocks: 64 KiB, LZ4: 64 KiB)
            bsz = rng.choice((4096, 65536))
            # (several codec blocks, and for the small read blocks also many read blocks; one log in three in an unbracketed
            # or an epoch notation -- the latter is a year-less one for the reader, which then walks the file backwards first)
            content, msgs = world.gen_big_text_log(rng, rng.choice((140_000, 300_000, 700_000)), notation=rng.choice((1, 1, 1, 1, 6, 8)))
        else:
            n = {"small": rng.randint(1, 6), "one_block": 3, "exact_multiple": 8, "many_blocks": rng.randint(30, 120)}[size_class]
            src = merge.gen_sources(rng, 1, bsz, max_msgs=n, containers=("plain",), allow_degenerate=False,
                                    tie_heavy=False, frac_choices=(3, 6), first_line_max=None, notations=merge.NOTATIONS_WIDE)[0]
            content, msgs = src.plain, src.msgs
        base = "c.log"
        opts += ["--blocksz", str(bsz)]
        if rng.random() < 0.4 and msgs:
            ts = sorted(set(m.instant for m in msgs))
            a = rng.choice(ts) + rng.choice((-1_000_000, 0, 0, 1_000_000))
            b = rng.choice(ts) + rng.choice((-1_000_000, 0, 0, 1_000_000))
            if a > b:
                a, b = b, a
            window = (a, b)
            opts += ["-a", fmt_bound(a), "-b", fmt_bound(b)]
    elif k == "yearless":
        # a log whose stamps carry no year: the one kind of content for which a modification time matters. The world keeps it
        # consistent -- the plain file's own time, a gz header's MTIME (or 0 with the .gz file's own time carrying it), a tar
        # member's time, the compressed file's own time for bz2 / xz / lz4 all say when the log was last written
        import c11
        off_min = 0
        src = c11.gen_source(rng, "c.log", b"Y", off_min, rng.choice((0, 1, 2)), rng.choice((2, 5, 12, 30)))
        content, msgs = src.plain, None
        base = "c.log"
        opts += ["-u", "-d", "%Y%m%dT%H%M%S|", "--blocksz", str(rng.choice((64, 128, 512, 4096, 65536)))]
        window = ("yearless_mtime", src.mtime)
    elif k == "utmp":
        content = None
        for _ in range(10):
            rel = rng.choice(UTMP_FIXTURES)
            content = utmp_fixture(rel)
            if content:
                break
        base = os.path.basename(rel)
        if rng.random() < 0.5:
            opts += ["--blocksz", str(rng.choice((64, 128, 384, 400, 1000)))]
    elif k == "evtx":
        which = rng.choice(("noevents", "pnp") if tier != "quick" else ("noevents", "noevents", "pnp"))
        content = fixtures.load(which)
        if which == "pnp" and rng.random() < 0.5:
            # a small log (first 1..40 records): its compressed forms are a few KiB
            import evtxmut
            content, _ = evtxmut.first_records(content, rng.choice((1, 3, 10, 40)))
        base = "c.evtx"
    else:
        which = "u22x3" if tier == "quick" or rng.random() < 0.7 else rng.choice(("ubuntu16", "rhe91"))
        content = fixtures.load(which)
        base = "c.journal"
        if rng.random() < 0.5:
            opts += ["--journal-output", rng.choice(("short", "export", "cat", "short-iso", "verbose", "json"))] \
                if False else ["--journal-output", rng.choice(("short", "export", "cat", "short-iso", "verbose"))]
    return k, base, content, msgs, opts, window


def stored_form(rng, form, base, content, mtime):
    if form == "tar":
        # member path: short, longer than the 100-byte name field of a tar header (GNU @LongLink entry / pax `path=`
        # record / ustar prefix split), or non-ASCII (pax record)
        style = rng.choice(("short", "short", "long", "long", "non_ascii"))
        if style == "long":
            mname = "logs-" + "d" * 55 + "/" + "host-" + "e" * 60 + "/" + base
        elif style == "non_ascii":
            mname = "dir-é-日本/" + base
        else:
            mname = rng.choice(("", "var/log/")) + base
        members = [(mname, content, mtime)]
        if rng.random() < 0.5:
            members.insert(rng.randrange(2), ("notes.nfo", b"not a log\n", mtime))
        if rng.random() < 0.5:
            # entries that are not regular files, before / between / after the member (as `tar cf x.tar dir/` writes them)
            for _ in range(rng.randint(1, 3)):
                kind_ = rng.choice(("dir", "dir", "symlink", "hardlink"))
                ent = {"dir": ("sub%d/" % rng.randrange(9), ("dir",), mtime),
                       "symlink": ("link%d.nfo" % rng.randrange(9), ("symlink", "notes.nfo"), mtime),
                       "hardlink": ("hard%d.nfo" % rng.randrange(9), ("hardlink", "notes.nfo"), mtime)}[kind_]
                if kind_ == "dir" and "/" in mname and rng.random() < 0.5:
                    ent = (mname.rsplit("/", 1)[0] + "/", ("dir",), mtime)
                members.insert(rng.randrange(len(members) + 1), ent)
        fmt = rng.choice(("ustar", "gnu", "pax"))
        return "c_arch.tar", world.to_tar(members, fmt), {"kind": "tar", "format": fmt, "members": len(members), "member_path": style}
    data, descr = world.random_container(rng, form, content, mtime=mtime, name=base)
    return base + world.SUFFIX[form], data, descr


def run_case(seed, i, tier):
    rng = core.rng_for(seed, PROP, i)
    kind, base, content, msgs, opts, window = gen_case(rng, tier)
    # modification times owe nothing to the content here (all of it carries full dates; year-less logs are C11's): the plain
    # file, each stored file, and the gz header / tar member inside it get times of their own
    span = (1_500_000_000, 1_700_000_000)
    if msgs:
        span = (msgs[0].instant // 1_000_000_000, msgs[-1].instant // 1_000_000_000)
    mtime = world.mtime_around(rng, *span)
    yl_mtime = None
    if kind == "yearless":
        yl_mtime = mtime = window[1]
        window = None
    cr = CaseResult()
    prng = core.rng_for(seed, PROP, i, "plan")
    plan = core.random_plan(prng, 1, budget=3_000_000)
    plan.hashseed = rng.getrandbits(32)
    ref_scn = core.Scenario([core.FileSpec(base, content, mtime)], opts + [base], None, "UTC")
    ref = core.execute(ref_scn, plan)
    cr.runs += 1
    vs = mergecheck.evaluate(ref, None, check_protocol=False)
    if not vs and msgs is not None:
        sel = [m for m in msgs if window is None or (window[0] // 1000 * 1000 <= m.instant <= window[1] // 1000 * 1000)]
        exp = b"".join(m.data for m in sel)
        if sel and sel[-1] is msgs[-1] and not exp.endswith(b"\n"):
            exp += b"\n"
        if ref.stdout != exp:
            vs.append(("plain_form_differs_from_model", mergecheck.show_diff(ref.stdout, exp)))
    for (cls, detail) in vs:
        cr.violations.append(Violation(cls, "plain form kind=%s opts=%s: %s" % (kind, opts, detail),
                                       {"scenario": ref_scn.to_json(), "plan": plan.as_replay(ref.trace).to_json(), "class": cls,
                                        "reference_stdout_b64": None}))
    if vs:
        return cr
    forms = list(FORMS)
    if tier == "quick" and kind in ("journal",):
        forms = rng.sample(forms, 2)
    if len(content) > 2_000_000 and "bz2" in forms and kind == "journal":
        forms.remove("bz2")     # 8 MiB through the pure-Rust bzip2 decoder costs seconds; bz2 is covered by the other kinds
    tried = []
    mtime_plain = mtime
    for form in forms:
        mtime = world.mtime_around(rng, *span)
        inner = world.mtime_around(rng, *span)
        if yl_mtime is not None:
            if form == "gz" and rng.random() < 0.4:
                inner, mtime = 0, yl_mtime                 # no MTIME in the header: the .gz file's own time counts
            elif form in ("gz", "tar"):
                inner = yl_mtime                           # (the outer file's own time must not matter then)
            else:
                inner, mtime = 0, yl_mtime
        name, data, descr = stored_form(rng, form, base, content, inner)
        this_ref = ref
        if form == "tar" and kind == "text" and rng.random() < 0.4:
            # two log members in one archive == the two plain files named in member order
            p2 = world.TextLogParams(n_msgs=rng.randint(1, 6), src_letter=b"Q", cont_p=0.2, t0=(msgs[0].instant if msgs else 946684800_000_000_000))
            c2, _, _ = world.gen_text_log(rng, p2)
            pair = [(base, content), ("other.log", c2)]
            if rng.random() < 0.5:
                pair.reverse()
            fmt = rng.choice(("ustar", "gnu", "pax"))
            data = world.to_tar([(rng.choice(("", "d/")) + n_, c_, mtime) for (n_, c_) in pair], fmt)
            name, descr = "c_arch.tar", {"kind": "tar", "format": fmt, "members": 2, "member_path": "two_log_members", "order": [n_ for (n_, _) in pair]}
            ref2_scn = core.Scenario([core.FileSpec(n_, c_, mtime_plain) for (n_, c_) in pair], opts + [n_ for (n_, _) in pair], None, "UTC")
            this_ref = core.execute(ref2_scn, plan)
            cr.runs += 1
            cr.probes["tar_with_two_log_members"] += 1
            if mergecheck.evaluate(this_ref, None, check_protocol=False):
                this_ref = ref
                name, data, descr = stored_form(rng, form, base, content, world.mtime_around(rng, *span))
        scn = core.Scenario([core.FileSpec(name, data, mtime)], opts + [name], None, "UTC")
        res = core.execute(scn, plan)
        tr = res.trace
        cr.runs += 1
        cr.steps += tr.steps
        cr.steps_max = max(cr.steps_max, tr.steps)
        cr.policies[plan.policy.split(":")[0]] += 1
        cr.probes["%s_as_%s" % (kind, form)] += 1
        if window:
            cr.probes["with_window"] += 1
        cr.faults["codec_parameters_varied"] += 1
        cr.decision_hashes.append(tr.decision_hash())
        cr.arrival_hashes.append(tr.arrival_hash())
        cr.nontrivial_keys.append(core.derive(0, scn.digest()))
        tried.append(descr)
        vs = mergecheck.evaluate(res, None, check_protocol=False)
        if not vs and res.stdout != this_ref.stdout:
            vs.append(("stored_form_differs_from_plain", mergecheck.show_diff(res.stdout, this_ref.stdout)))
        for (cls, detail) in vs:
            rp = {"scenario": scn.to_json(), "plan": plan.as_replay(tr).to_json(), "class": cls,
                  "reference_stdout_b64": base64.b64encode(this_ref.stdout).decode()}
            cr.violations.append(Violation(cls, "kind=%s form=%s opts=%s: %s" % (kind, descr, opts, detail), rp))
        if vs:
            break
    if len(content) > 130_000:
        cr.probes["content_spans_several_codec_blocks"] += 1
    cr.sample = {"kind": kind, "argv": opts + [base], "plain_bytes": len(content), "forms": tried}
    return cr


def classes_of(rp):
    scn = core.Scenario.from_json(rp["scenario"])
    plan = core.Plan.from_json(rp["plan"])
    res = core.execute(scn, plan)
    cl = set(c for (c, _) in mergecheck.evaluate(res, None, check_protocol=False))
    if rp.get("reference_stdout_b64") is not None and res.stdout != base64.b64decode(rp["reference_stdout_b64"]):
        cl.add("stored_form_differs_from_plain")
    return cl


def replay(rp):
    cl = classes_of(rp)
    return (rp.get("class") in cl) if rp.get("class") else bool(cl)


RULE = ("one case = one log (generated text with sizes small / one block / exact block multiple / many blocks and an "
        "optional -a/-b window; shipped utmp-family file; shipped evtx; shipped journal with a --journal-output mode) "
        "printed from its plain form and from gz / bz2 / xz / lz4 / tar forms with seed-chosen codec parameters; "
        "non-trivial = a run of a stored form; distinct = scenario digest (content, container bytes, options)")
ASSUMPTIONS = ["journal / evtx / accounting inputs are the files shipped in /repo/logs",
               "year-less logs: one case in nine, with every place a modification time can be stored saying the same (the inference itself is C11's)"]


def main(tier):
    n = 300 if tier == "quick" else 12000
    cap = 400 if tier == "quick" else 1500
    return engine.run_check(PROP, "c05", tier, n, cap, "exploration", RULE, ASSUMPTIONS)
