"""C15 -- directories and stdin path lists expand to the same run as explicit files.

Metamorphic oracle: `s4 DIR...` == `s4 <every regular file beneath, symlinks followed, in
component-wise sorted path order, known non-log suffixes removed>` == the same paths fed through
`-` on stdin (with and without a trailing newline) == mixtures, byte for byte. Every file carries
messages with the same instants, so the tie order (= source order) exposes any difference in the
expansion or its order. Files are created on the simulated disk in a seed-chosen order, so readdir
order varies. An explicitly named file with a non-log suffix must be attempted.
"""
import core
import engine
import merge
import mergecheck
import world
from engine import Violation, CaseResult

PROP = "C15"

FILE_NAMES = ("a.log", "b.log", "c.txt", "messages", "syslog", "zz.log", "A.log", "a b.log", "é.log", "日本.log", "x.log.gz",
              "y.log.xz", "kern.log.1", "app.log.old", ".hidden.log", "m-n.log", "10.log", "9.log",
              "nightly.log ", " lead.log", "tab.log\t", "two  spaces.log")      # (blanks at either end of a name are part of the name)
NONLOG_NAMES = ("pic.jpg", "tool.exe", "lib.so", "page.html", "run.sh", "arch.zip", "song.mp3", "page.html.gz", "core.bin.1.xz", "web.bin.1.gz")
DIR_NAMES = ("a", "b", "a.d", "sub dir", "ünï", "Z", "0", ".hid")


def walk_key(path):
    return tuple(c.encode("utf-8") for c in path.split("/"))


class Tree:
    def __init__(self):
        self.files = {}      # path -> bytes
        self.links = {}      # path -> target (relative to the link's directory)
        self.broken = {}     # path -> target: dangling links; they name no regular file and contribute nothing to any form
        self.dirs = set()
        self.lines = {}      # path -> [[(instant, line bytes)...] per source it contributes] (one list; a tar: one per member)

    def listdir(self, d):
        """names directly under directory d (files, links, dirs)"""
        pre = d + "/"
        names = set()
        for p in list(self.files) + list(self.links) + list(self.dirs):
            if p.startswith(pre):
                names.add(p[len(pre):].split("/")[0])
        return names

    def resolve(self, path):
        """follow symlinks in any component; -> ('file', real) | ('dir', real) | None"""
        import posixpath
        parts = path.split("/")
        cur = ""
        for k, comp in enumerate(parts):
            cur = comp if not cur else cur + "/" + comp
            hops = 0
            while cur in self.links and hops < 8:
                tgt = self.links[cur]
                cur = posixpath.normpath(posixpath.join(posixpath.dirname(cur), tgt))
                hops += 1
        if cur in self.files:
            return ("file", cur)
        if cur in self.dirs:
            return ("dir", cur)
        return None

    def expand(self, d, skip_nonlog=True):
        """model of naming directory d: files beneath (links followed, listed under the link's path), sorted"""
        out = []
        stack = [d]
        found = []

        def rec(logical):
            r = self.resolve(logical)
            if r is None:
                return
            kind, real = r
            if kind == "file":
                found.append(logical)
                return
            for name in self.listdir(real):
                rec(logical + "/" + name)
        rec(d)
        del stack
        found.sort(key=walk_key)
        for p in found:
            base = p.rsplit("/", 1)[-1]
            if skip_nonlog and any(base.endswith(n) for n in NONLOG_NAMES):
                continue
            out.append(p)
        return out


def make_log(rng, letter, k, instants, lines_out=None):
    """k messages at the shared instants; unique tags"""
    out = bytearray()
    for i in range(k):
        ln = world.stamp(instants[i], 0, 1, 3) + b" " + letter + world.tag26(i) + b" " + world._body(rng, rng.randint(0, 12), 0) + b"\n"
        out += ln
        if lines_out is not None:
            lines_out.append((instants[i], ln))
    return bytes(out)


def model_stdout(t, explicit):
    """what naming these paths in this order must print: every file is attempted whatever its name, an archive
    contributes one source per member in archive order; earliest pending message first, ties to the earlier source"""
    srcs = []
    for p in explicit:
        r = t.resolve(p)
        if r is None or r[0] != "file" or r[1] not in t.lines:
            return None
        srcs += [list(x) for x in t.lines[r[1]]]
    out = bytearray()
    pos = [0] * len(srcs)
    while True:
        best = None
        for k, s_ in enumerate(srcs):
            if pos[k] < len(s_) and (best is None or s_[pos[k]][0] < srcs[best][pos[best]][0]):
                best = k
        if best is None:
            return bytes(out)
        out += srcs[best][pos[best]][1]
        pos[best] += 1


def gen_tree(rng):
    t = Tree()
    roots = ["r0"] if rng.random() < 0.5 else (["r0", "r1"] if rng.random() < 0.6 else ["r%d" % k for k in range(rng.randint(3, 6))])
    instants = [946684800_000_000_000 + i * 1_000_000_000 for i in range(4)]
    fid = [0]

    def add_file(d, name):
        letter = bytes([65 + fid[0] % 26]) + bytes([97 + (fid[0] // 26) % 26])
        fid[0] += 1
        lines = []
        content = make_log(rng, letter, rng.randint(1, 3), instants, lines)
        t.lines[d + "/" + name] = [lines]
        if name.endswith(".gz"):
            content = world.to_gz(content, level=6, mtime=0)
        elif name.endswith(".xz"):
            content = world.to_xz(content, 0)
        t.files[d + "/" + name] = content

    def fill(d, depth):
        t.dirs.add(d)
        for name in rng.sample(FILE_NAMES, rng.randint(0, 4)):
            add_file(d, name)
        if rng.random() < 0.4:
            add_file(d, rng.choice(NONLOG_NAMES))
        if rng.random() < 0.15:
            # an archive beneath the directory: walking reaches it like naming it; its members (whatever their names,
            # a named archive's members are all attempted) must print the same either way
            members = []
            mlines = []
            for mn in rng.sample(("old/app.log", "deploy.sh", "report.html", "notes", "m.txt", "x.py"), rng.randint(1, 3)):
                letter = bytes([65 + fid[0] % 26]) + bytes([97 + (fid[0] // 26) % 26])
                fid[0] += 1
                ml = []
                members.append((mn, make_log(rng, letter, rng.randint(1, 3), instants, ml), 1600000000))
                mlines.append(ml)
            tarname = d + "/" + rng.choice(("bundle.tar", "a.tar"))
            t.files[tarname] = world.to_tar(members, rng.choice(("ustar", "gnu", "pax")))
            t.lines[tarname] = mlines
        if depth < 3:
            for dn in rng.sample(DIR_NAMES, rng.randint(0, 2)):
                fill(d + "/" + dn, depth + 1)
    for r in roots:
        fill(r, 0)
    # a directory outside the walked roots, reachable only through a symlink
    if rng.random() < 0.5:
        fill("outside", 2)
    # symlinks: to a file, to a directory
    all_files = sorted(t.files)
    all_dirs = sorted(t.dirs)
    import posixpath
    for _ in range(rng.randint(0, 3)):
        d = rng.choice([x for x in all_dirs if not x.startswith("outside")])
        if rng.random() < 0.6 and all_files:
            tgt = rng.choice(all_files)
            # the link's name keeps the target's name (and so its type): which of the two names selects the
            # reader is not this property's business (C16)
            name = rng.choice(("lnk_", "l i_", "0_")) + tgt.rsplit("/", 1)[-1]
        else:
            # no cycles: the target is never an ancestor, and a target inside the walked roots is allowed only
            # while no other directory link exists (targets under outside/ hold no links at all)
            have_dirlink = any(t.resolve(lp) and t.resolve(lp)[0] == "dir" for lp in t.links)
            cands = [x for x in all_dirs if not (d == x or d.startswith(x + "/"))
                     and (x.startswith("outside") or not have_dirlink)
                     and not any(lp.startswith(x + "/") for lp in t.links)]
            if not cands:
                continue
            tgt = rng.choice(cands)
            name = rng.choice(("ldir", "l.d"))
        lp = d + "/" + name
        if lp in t.files or lp in t.dirs or lp in t.links:
            continue
        t.links[lp] = posixpath.relpath(tgt, d)
    # links that cannot be followed: the walk must pass over them and go on
    for _ in range(rng.choice((0, 0, 1, 1, 2))):
        d = rng.choice([x for x in all_dirs if not x.startswith("outside")])
        name = rng.choice(("broken", "a_gone.log", "zz_loop", "m_self", "0dangling.log"))
        lp = d + "/" + name
        if lp in t.files or lp in t.dirs or lp in t.links or lp in t.broken:
            continue
        # (dangling only: a link to an ancestor is followed by the walk until the kernel's 40-level limit and lists the
        # same files again and again -- what "every regular file beneath it" means for a loop is not something the
        # statement defines, so trees stay cycle-free)
        t.broken[lp] = rng.choice(("no/such/target.log", "gone.log", "../gone", "/nonexistent/s4sim/x.log"))
    return t, roots


def to_scenario(rng, t, argv, stdin, pool=None):
    specs = [core.FileSpec(p, d, 1600000000) for p, d in t.files.items()]
    rng.shuffle(specs)      # creation order on disk is part of the scenario
    for lp, tgt in list(t.links.items()) + list(t.broken.items()):
        specs.append(core.FileSpec(lp, b"", None, tgt))
    scn = core.Scenario(specs, argv, stdin, "UTC", sorted(t.dirs))
    if pool:
        scn.env["RAYON_NUM_THREADS"] = str(pool)      # the size of the pool the directory walks run on: a machine with 1 or 2 cpus
    return scn


def run_case(seed, i, tier):
    rng = core.rng_for(seed, PROP, i)
    t, roots = gen_tree(rng)
    cr = CaseResult()
    base = ["--color", "never", "--tz-offset", "+00:00"]
    show_path = rng.random() < 0.25
    if show_path:
        # every line carries the path its file was found under: naming a directory must give the same paths as naming the files
        base = base + ["-p"]
    # the arguments: directories, some explicit files (one of them possibly with a non-log suffix)
    args = list(roots)
    extra = [p for p in sorted(t.files) if p.startswith("outside/")]
    if extra and rng.random() < 0.5:
        args.insert(rng.randrange(len(args) + 1), rng.choice(extra))
    if args and rng.random() < 0.15:
        args.insert(rng.randrange(len(args) + 1), rng.choice(args))      # the same directory / file named twice
    nonlog_explicit = [p for p in sorted(t.files) if p.rsplit("/", 1)[-1] in NONLOG_NAMES and not p.startswith("outside/")]
    if nonlog_explicit and rng.random() < 0.4:
        args.append(rng.choice(nonlog_explicit))
    # explicit equivalent
    explicit = []
    for a in args:
        r = t.resolve(a)
        if r and r[0] == "dir":
            explicit += t.expand(a)
        else:
            explicit.append(a)
    if not explicit:
        explicit = list(args)       # nothing to expand to: compare the argument forms among themselves
    forms = [("as_given", base + args, None),
             ("explicit", base + explicit, None)]
    def respell(a):
        # the same path spelled another way
        r_ = t.resolve(a)
        if r_ and r_[0] == "dir":
            return rng.choice((a + "/", "./" + a, a + "/.", "./" + a + "/", a + "//"))
        return rng.choice(("./" + a, a, ".//" + a))
    if not show_path:      # (a respelled directory legitimately shows in the printed paths)
        forms.append(("respelled", base + [respell(a) for a in args], None))
    stdin_nl = ("\n".join(args) + ("\n" if rng.random() < 0.5 else "")).encode("utf-8")
    forms.append(("all_on_stdin", base + ["-"], stdin_nl))
    k = rng.randrange(len(explicit) + 1)
    forms.append(("split_args_stdin", base + explicit[:k] + ["-"], ("\n".join(explicit[k:]) + "\n").encode("utf-8") if explicit[k:] else b""))
    # '-' in the middle: the stdin paths take the place of the '-' among the arguments
    j = rng.randrange(len(explicit) + 1)
    lo, hi = min(j, k), max(j, k)
    forms.append(("stdin_in_the_middle", base + explicit[:lo] + ["-"] + explicit[hi:],
                  ("\n".join(explicit[lo:hi]) + ("\n" if rng.random() < 0.7 else "")).encode("utf-8") if explicit[lo:hi] else b""))
    prng = core.rng_for(seed, PROP, i, "plan")
    plan = core.random_plan(prng, max(1, len(explicit)), budget=3_000_000)
    plan.hashseed = rng.getrandbits(32)
    pool = rng.choice((None, None, None, 1, 2, 2))
    ref = None
    # the absolute part: the explicit list against a model of the merge (skipped when a path occurs twice in it: what naming
    # a file twice prints is compared across the forms only)
    want = model_stdout(t, explicit) if (len(set(explicit)) == len(explicit) and not show_path) else None
    if want is not None:
        cr.probes["explicit_form_checked_against_model"] += 1
    for (name, argv, stdin) in forms:
        scn = to_scenario(core.random.Random(rng.getrandbits(32)), t, argv, stdin, pool)
        res = core.execute(scn, plan)
        tr = res.trace
        cr.runs += 1
        cr.steps += tr.steps
        cr.steps_max = max(cr.steps_max, tr.steps)
        cr.policies[plan.policy.split(":")[0]] += 1
        cr.decision_hashes.append(tr.decision_hash())
        cr.arrival_hashes.append(tr.arrival_hash())
        cr.probes["form_" + name] += 1
        cr.nontrivial_keys.append(core.derive(0, scn.digest()))
        vs = mergecheck.evaluate(res, None, check_protocol=False)
        if not vs and name == "explicit" and want is not None and res.stdout != want:
            vs.append(("explicit_list_differs_from_model", mergecheck.show_diff(res.stdout, want)))
        if not vs:
            if ref is None:
                ref = (name, res.stdout)
            elif res.stdout != ref[1]:
                vs.append(("expansion_differs_%s_vs_%s" % (name, ref[0]), mergecheck.show_diff(res.stdout, ref[1])))
        for (cls, detail) in vs:
            rp = {"scenario": scn.to_json(), "plan": plan.as_replay(tr).to_json(), "class": cls,
                  "reference": None if (ref is None or cls == "explicit_list_differs_from_model") else {"name": ref[0], "stdout_b64": __import__("base64").b64encode(ref[1]).decode()},
                  "want_b64": __import__("base64").b64encode(want).decode() if cls == "explicit_list_differs_from_model" else None}
            cr.violations.append(Violation(cls, "args=%s explicit=%s links=%s: %s" % (args, explicit, t.links, detail), rp))
        if vs:
            break
    if t.links:
        cr.probes["tree_has_symlinks"] += 1
    if any("/." in p for p in t.files):
        cr.probes["tree_has_dot_names"] += 1
    if nonlog_explicit:
        cr.probes["tree_has_nonlog_suffix_files"] += 1
    cr.sample = {"args": args, "explicit_expansion": explicit, "symlinks": t.links, "unfollowable_links": t.broken, "files": len(t.files)}
    if t.broken:
        cr.probes["tree_with_unfollowable_links"] += 1
    if show_path:
        cr.probes["paths_shown(-p)"] += 1
    if pool:
        cr.probes["walk_pool_of_%d_threads" % pool] += 1
    if len(roots) > 2:
        cr.probes["three_to_six_directories_named"] += 1
    return cr


def classes_of(rp):
    import base64
    scn = core.Scenario.from_json(rp["scenario"])
    plan = core.Plan.from_json(rp["plan"])
    res = core.execute(scn, plan)
    cl = set(c for (c, _) in mergecheck.evaluate(res, None, check_protocol=False))
    if rp.get("want_b64") is not None and res.stdout != base64.b64decode(rp["want_b64"]):
        cl.add("explicit_list_differs_from_model")
    if rp.get("reference") and res.stdout != base64.b64decode(rp["reference"]["stdout_b64"]):
        cl.add(rp["class"])
    return cl


def replay(rp):
    cl = classes_of(rp)
    return (rp.get("class") in cl) if rp.get("class") else bool(cl)


RULE = ("one case = a generated tree (nesting to depth 3, names with spaces / non-ASCII / leading dots / rotation "
        "suffixes, .gz/.xz logs, known non-log suffixes, symlinks to files and to directories incl. one outside the "
        "walked roots; files created in a seed-chosen order) named in four forms: directories as given, the model's "
        "explicit sorted expansion, everything on stdin, a split between arguments and stdin; non-trivial = every run; "
        "distinct = scenario digest")
ASSUMPTIONS = ["jwalk's rayon pool is uncontrolled (runs inside one step); the simulator contributes the creation-order variation",
               "symlink cycles are not generated"]


def main(tier):
    n = 600 if tier == "quick" else 30000
    cap = 300 if tier == "quick" else 1500
    return engine.run_check(PROP, "c15", tier, n, cap, "exploration", RULE, ASSUMPTIONS)
