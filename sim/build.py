"""Build the simulation artefacts from /repo's *current working tree*.

* /verif/shadow/Cargo.toml is regenerated from /repo/Cargo.toml on every build: same package, same
  dependencies, [lib]/[[bin]] paths pointing into /repo/src, plus the path dependency s4_verif_rt.
  /repo/Cargo.toml and /repo/Cargo.lock are never touched.
* cargo build --offline with RUSTFLAGS="--cfg s4_verif" into /verif/target (profile "verif":
  release-like, panic=abort as shipped, no LTO so a rebuild after an edit takes about a minute).
* the getrandom preload shim (hash-seed control) and the aux tools are built the same way.

Exit code 2 (HarnessError) for any build failure: never a verdict.
"""
import fcntl
import hashlib
import os
import re
import shutil
import subprocess
import sys

VERIF = os.path.dirname(os.path.dirname(os.path.abspath(__file__)))
REPO = os.environ.get("S4SIM_REPO", "/repo")
TARGET = os.environ.get("S4SIM_TARGET") or os.path.join(VERIF, "target")
SHADOW = os.path.join(VERIF, "shadow") if REPO == "/repo" else os.path.join(TARGET, "shadow")
S4BIN = os.path.join(TARGET, "verif", "s4")
_SHARED = os.path.join(VERIF, "target")      # aux tool and preload shim do not depend on /repo
AUXBIN = os.path.join(_SHARED, "aux", "release", "s4aux")
PRELOAD = os.path.join(_SHARED, "preload", "libs4seed.so")


class HarnessError(Exception):
    pass


def _cargo_env():
    env = dict(os.environ)
    env["CARGO_NET_OFFLINE"] = "true"
    env["CARGO_TERM_COLOR"] = "never"
    return env


def shadow_manifest(repo=REPO):
    src = open(os.path.join(repo, "Cargo.toml")).read()
    # drop [[bench]] tables (their sources are not needed and would be resolved relative to shadow/)
    out = []
    skip = False
    for line in src.split("\n"):
        st = line.strip()
        if st.startswith("[") and st.endswith("]"):
            skip = st == "[[bench]]"
        if not skip:
            out.append(line)
    s = "\n".join(out)
    s = s.replace('path = "src/lib.rs"', 'path = "%s/src/lib.rs"' % repo)
    s = s.replace('path = "src/bin/s4.rs"', 'path = "%s/src/bin/s4.rs"' % repo)
    s = re.sub(r'(?m)^readme = .*$', '', s)
    assert "[dependencies]\n" in s
    s = s.replace("[dependencies]\n", '[dependencies]\ns4_verif_rt = { path = "%s/rt" }\n' % VERIF, 1)
    s += """

# ---- added by /verif/sim/build.py ----
[workspace]

[profile.verif]
inherits = "release"
lto = false
codegen-units = 16
strip = false
panic = "abort"
debug = 0
incremental = false
"""
    return s


def _write_if_changed(path, text):
    try:
        if open(path).read() == text:
            return False
    except FileNotFoundError:
        pass
    with open(path, "w") as f:
        f.write(text)
    return True


def build_s4(repo=REPO, target=TARGET, quiet=True):
    os.makedirs(SHADOW, exist_ok=True)
    os.makedirs(target, exist_ok=True)
    shadow = SHADOW
    os.makedirs(shadow, exist_ok=True)
    _write_if_changed(os.path.join(shadow, "Cargo.toml"), shadow_manifest(repo))
    # lock file: start from the repository's own lock whenever that one changes
    lock_src = os.path.join(repo, "Cargo.lock")
    h = hashlib.sha256(open(lock_src, "rb").read()).hexdigest()
    hpath = os.path.join(shadow, ".lockhash")
    old = open(hpath).read() if os.path.exists(hpath) else ""
    if old != h or not os.path.exists(os.path.join(shadow, "Cargo.lock")):
        shutil.copy(lock_src, os.path.join(shadow, "Cargo.lock"))
        open(hpath, "w").write(h)
    env = _cargo_env()
    env["RUSTFLAGS"] = "--cfg s4_verif --check-cfg cfg(s4_verif) -Awarnings"
    # reach measurement (tools/coverage.sh): another toolchain / extra flags into a separate S4SIM_TARGET; never set by a check
    if os.environ.get("S4SIM_EXTRA_RUSTFLAGS"):
        env["RUSTFLAGS"] += " " + os.environ["S4SIM_EXTRA_RUSTFLAGS"]
    cmd = ["cargo"] + ([os.environ["S4SIM_CARGO_TOOLCHAIN"]] if os.environ.get("S4SIM_CARGO_TOOLCHAIN") else []) + ["build", "--offline", "--profile", "verif", "--bin", "s4",
           "--manifest-path", os.path.join(shadow, "Cargo.toml"), "--target-dir", target]
    r = subprocess.run(cmd, env=env, stdout=subprocess.PIPE, stderr=subprocess.STDOUT, text=True)
    if r.returncode != 0:
        raise HarnessError("cargo build of s4 (cfg s4_verif) failed:\n" + r.stdout[-6000:])
    if not quiet:
        sys.stderr.write(r.stdout[-400:])
    return os.path.join(target, "verif", "s4")


def build_aux():
    env = _cargo_env()
    cmd = ["cargo", "build", "--offline", "--release",
           "--manifest-path", os.path.join(VERIF, "aux", "Cargo.toml"),
           "--target-dir", os.path.join(_SHARED, "aux")]
    r = subprocess.run(cmd, env=env, stdout=subprocess.PIPE, stderr=subprocess.STDOUT, text=True)
    if r.returncode != 0:
        raise HarnessError("cargo build of s4aux failed:\n" + r.stdout[-6000:])
    return AUXBIN


def build_preload():
    src = os.path.join(VERIF, "preload", "seed.c")
    os.makedirs(os.path.dirname(PRELOAD), exist_ok=True)
    if os.path.exists(PRELOAD) and os.path.getmtime(PRELOAD) >= os.path.getmtime(src):
        return PRELOAD
    r = subprocess.run(["cc", "-O2", "-shared", "-fPIC", "-o", PRELOAD + ".tmp", src],
                       stdout=subprocess.PIPE, stderr=subprocess.STDOUT, text=True)
    if r.returncode != 0:
        raise HarnessError("building the getrandom preload shim failed:\n" + r.stdout)
    os.replace(PRELOAD + ".tmp", PRELOAD)
    return PRELOAD


def build_all(quiet=True):
    """Serialised by a file lock so concurrent checks do not race in cargo."""
    os.makedirs(TARGET, exist_ok=True)
    with open(os.path.join(TARGET, ".build.lock"), "w") as lk:
        fcntl.flock(lk, fcntl.LOCK_EX)
        build_preload()
        if os.path.exists(os.path.join(VERIF, "aux", "Cargo.toml")):
            build_aux()
        return build_s4(quiet=quiet)


if __name__ == "__main__":
    try:
        print(build_all(quiet=False))
    except HarnessError as e:
        sys.stderr.write("HARNESS ERROR: %s\n" % e)
        sys.exit(2)
