"""Reference model of s4's decoration: prepended file field, prepended datetime field, separators.

Written from the documentation (s4 --help) and chrono's documented strftime semantics for a fixed
token vocabulary; shares no code with s4.
"""
import datetime as _dt
import re
import unicodedata

UTC = _dt.timezone.utc
SGR = re.compile(rb"\x1b\[[0-9;]*m")
ESCAPES = {"\\0": b"\x00", "\\a": b"\x07", "\\b": b"\x08", "\\e": b"\x1b", "\\f": b"\x0c", "\\n": b"\n",
           "\\r": b"\r", "\\\\": b"\\", "\\t": b"\t", "\\v": b"\x0b"}
DEFAULT_DT_FORMAT = "%Y%m%dT%H%M%S%.3f%z"

MON = ("Jan", "Feb", "Mar", "Apr", "May", "Jun", "Jul", "Aug", "Sep", "Oct", "Nov", "Dec")
DAY = ("Mon", "Tue", "Wed", "Thu", "Fri", "Sat", "Sun")


def strip_colour(b):
    return SGR.sub(b"", b)


def unescape_separator(s):
    """the documented escape set; anything else is literal"""
    out = bytearray()
    i = 0
    while i < len(s):
        two = s[i:i + 2]
        if two in ESCAPES:
            out += ESCAPES[two]
            i += 2
        else:
            out += s[i].encode("utf-8")
            i += 1
    return bytes(out)


def width(s):
    """terminal column width (East Asian wide / fullwidth = 2)"""
    w = 0
    for ch in s:
        if unicodedata.combining(ch):
            continue
        w += 2 if unicodedata.east_asian_width(ch) in ("W", "F") else 1
    return w


def strftime(fmt, instant_ns, off_min):
    secs, ns = divmod(instant_ns, 1_000_000_000)
    t = _dt.datetime.fromtimestamp(secs + off_min * 60, UTC)
    sign = "+" if off_min >= 0 else "-"
    a = abs(off_min)
    out = []
    i = 0
    while i < len(fmt):
        c = fmt[i]
        if c != "%":
            out.append(c)
            i += 1
            continue
        for tok, val in (
            ("%.3f", ".%03d" % (ns // 1_000_000)), ("%.6f", ".%06d" % (ns // 1000)), ("%.9f", ".%09d" % ns),
            ("%3f", "%03d" % (ns // 1_000_000)), ("%6f", "%06d" % (ns // 1000)), ("%9f", "%09d" % ns),
            ("%:z", "%s%02d:%02d" % (sign, a // 60, a % 60)),
            ("%Y", "%04d" % t.year), ("%m", "%02d" % t.month), ("%d", "%02d" % t.day), ("%e", "%2d" % t.day),
            ("%H", "%02d" % t.hour), ("%M", "%02d" % t.minute), ("%S", "%02d" % t.second),
            ("%I", "%02d" % ((t.hour % 12) or 12)), ("%p", "AM" if t.hour < 12 else "PM"),
            ("%y", "%02d" % (t.year % 100)), ("%j", "%03d" % t.timetuple().tm_yday),
            ("%a", DAY[t.weekday()]), ("%b", MON[t.month - 1]),
            ("%T", "%02d:%02d:%02d" % (t.hour, t.minute, t.second)),
            ("%D", "%02d/%02d/%02d" % (t.month, t.day, t.year % 100)),
            ("%F", "%04d-%02d-%02d" % (t.year, t.month, t.day)),
            ("%z", "%s%02d%02d" % (sign, a // 60, a % 60)), ("%Z", "%s%02d:%02d" % (sign, a // 60, a % 60)),
            ("%s", "%d" % secs), ("%f", "%09d" % ns), ("%%", "%"),
        ):
            if fmt.startswith(tok, i):
                out.append(val)
                i += len(tok)
                break
        else:
            raise ValueError("token not in the model's vocabulary at %r" % fmt[i:i + 4])
    return "".join(out)


def split_lines(data):
    """lines of a message, each with its terminator (the last may lack one)"""
    parts = data.split(b"\n")
    out = [p + b"\n" for p in parts[:-1]]
    if parts[-1] != b"":
        out.append(parts[-1])
    return out


class Decoration:
    def __init__(self, file_mode=None, align=False, dt_off=None, dt_format=None, psep=":", sep=""):
        self.file_mode = file_mode      # None | "name" (-n) | "path" (-p)
        self.align = align              # -w
        self.dt_off = dt_off            # minutes east | None (no datetime field)
        self.dt_format = dt_format      # None = default format
        self.psep = psep
        self.sep = sep                  # as typed (with backslash escapes)

    def file_field(self, path, printed_paths):
        if self.file_mode is None:
            return b""
        name = path.rsplit("/", 1)[-1] if self.file_mode == "name" else path
        pad = 0
        if self.align:
            names = [(p.rsplit("/", 1)[-1] if self.file_mode == "name" else p) for p in printed_paths]
            pad = max(width(n) for n in names) - width(name)
        return (name + " " * pad + self.psep).encode("utf-8")

    def date_field(self, instant_ns):
        if self.dt_off is None:
            return b""
        return (strftime(self.dt_format or DEFAULT_DT_FORMAT, instant_ns, self.dt_off) + self.psep).encode("utf-8")


def model_stdout(sources, merged, dec):
    """sources: merge.Source list; merged: [(source index, Msg, is_last)]; -> expected bytes (--color never)"""
    printed = []
    seen = set()
    for (si, _, _) in merged:
        if si not in seen:
            seen.add(si)
            printed.append(sources[si].path)
    sepb = unescape_separator(dec.sep)
    out = bytearray()
    for (si, m, is_last) in merged:
        pre = dec.file_field(sources[si].path, printed) + dec.date_field(m.instant)
        for ln in split_lines(m.data):
            out += pre + ln
        out += sepb
        if is_last and not m.data.endswith(b"\n"):
            out += b"\n"
    return bytes(out)
