"""Invariants over the recorded trace of one run (DESIGN appendix B) and reach probes."""


def check_protocol(tr, signalled=False):
    """Returns list of (invariant, detail) breaches.

    I1  a print happens only when no file-info is outstanding and every live source has a pending message
    I2  the printed message is the minimum over the pending set by (instant, source index)
    I3  per source the coordinator receives: info, msg*, then summary or disconnect; nothing after
    I4  the coordinator never receives from a source whose message is still pending
    I5  every received message is printed before exit (unless a signal was delivered)
    I6  the coordinator leaves its loop only when no source is live (unless a signal was delivered)
    I7  the run ends: an exit event exists and no DEADLOCK/LIVELOCK verdict was recorded
    """
    bad = []
    n_spawned = len(tr.threads)
    state = {}          # pathid -> 'info' | 'msgs' | 'closed'
    pending = {}        # pathid -> dt
    live = set()
    disconnected = set()
    infos = 0
    events = []
    for e in tr.recv:
        events.append((e[0], 0, "R", e))
    for e in tr.prints:
        events.append((e[0], 1, "P", e))
    for e in tr.disconnects:
        events.append((e[0], 2, "D", e))
    # trace lines of one step keep their file order: R before P before D inside a loop iteration is
    # the order the coordinator emits them, and each is emitted at a distinct step in practice;
    # a stable sort on (step, kind) is enough.
    order = {id(e): k for k, e in enumerate(tr.recv + tr.prints + tr.disconnects)}
    events.sort(key=lambda x: (x[0], x[1]))
    del order
    sig_step = tr.signals_delivered[0] if tr.signals_delivered else None
    for (step, _, kind, e) in events:
        after_sig = sig_step is not None and step >= sig_step
        if kind == "R":
            _, pid, k, dt, last = e
            if pid in pending and not after_sig:
                bad.append(("I4", "step %d: received %s from source %d whose message is pending" % (step, k, pid)))
            st = state.get(pid)
            if k == "info":
                if st is not None:
                    bad.append(("I3", "step %d: second file-info from source %d" % (step, pid)))
                state[pid] = "info"
                live.add(pid)
                infos += 1
            elif k == "msg":
                if st not in ("info", "msgs"):
                    bad.append(("I3", "step %d: message from source %d in state %s" % (step, pid, st)))
                state[pid] = "msgs"
                pending[pid] = dt
            elif k in ("summary", "disconnect"):
                if st not in ("info", "msgs") and not (k == "disconnect"):
                    bad.append(("I3", "step %d: %s from source %d in state %s" % (step, k, pid, st)))
                state[pid] = "closed"
        elif kind == "P":
            _, pid, dt, last, pend, info_out = e
            if info_out:
                bad.append(("I1", "step %d: print while a file-info is outstanding" % step))
            if infos < n_spawned and not after_sig:
                bad.append(("I1", "step %d: print after %d of %d file-infos" % (step, infos, n_spawned)))
            pk = set(p for (p, _) in pend)
            lv = live - disconnected
            if pk != lv and not after_sig:
                bad.append(("I1", "step %d: print with pending=%s but live=%s" % (step, sorted(pk), sorted(lv))))
            if pend:
                best = min(pend, key=lambda x: (x[1], x[0]))
                if (best[0], best[1]) != (pid, dt):
                    bad.append(("I2", "step %d: printed source %d dt=%d but minimum pending is source %d dt=%d"
                                % (step, pid, dt, best[0], best[1])))
            if pid not in pending and not after_sig:
                bad.append(("I2", "step %d: printed source %d that has no received pending message" % (step, pid)))
            pending.pop(pid, None)
        elif kind == "D":
            _, pid = e
            disconnected.add(pid)
    signalled = signalled or bool(tr.signals_delivered)
    if not signalled:
        if pending:
            bad.append(("I5", "exit with unprinted received messages of sources %s" % sorted(pending)))
        if tr.loop_exit is not None and (live - disconnected):
            bad.append(("I6", "coordinator left its loop with live sources %s" % sorted(live - disconnected)))
        for pid, st in state.items():
            if st != "closed":
                bad.append(("I6", "exit before source %d was drained (state %s)" % (pid, st)))
    if tr.z is not None:
        bad.append(("I7", "%s at step %d: %s" % (tr.z[1], tr.z[0], tr.z[2])))
    elif tr.exit is None and tr.panic is None:
        bad.append(("I7", "no exit event in trace"))
    return bad


def probes(tr):
    """Reach probes: which rare situations did this run actually visit."""
    p = {}
    for (_, bl) in tr.blocked:
        for b in bl:
            if ":send:" in b:
                p["worker_blocked_on_full_channel"] = 1
            elif ":select:" in b:
                p["coordinator_blocked_in_select"] = 1
            elif ":wrlock:" in b or ":rdlock:" in b:
                p["thread_blocked_on_rwlock"] = 1
    if any(n >= 2 for (_, _, n, _) in tr.picks):
        p["select_had_2plus_ready"] = 1
    # a source finished before another started
    starts = {}
    for (step, tid, op, _, _) in tr.sched:
        if op == "start":
            starts[tid] = step
    for (fstep, ftid) in tr.finished:
        if any(s > fstep for t, s in starts.items() if t != ftid):
            p["source_finished_before_another_started"] = 1
            break
    msgs_by = {}
    for (_, pid, k, _, _) in tr.recv:
        if k == "info":
            msgs_by.setdefault(pid, 0)
        elif k == "msg":
            msgs_by[pid] = msgs_by.get(pid, 0) + 1
    if any(v == 0 for v in msgs_by.values()):
        p["source_with_zero_messages"] = 1
    if tr.signals_delivered:
        p["signal_delivered"] = 1
    return p
