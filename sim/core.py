"""Core of the s4 simulation driver: seeds, scenarios, plans, execution of one simulated run.

One simulated run = one OS process of the real `s4` (built with --cfg s4_verif) whose threads,
channel, locks, signal, clock and hash seed are owned by s4_verif_rt according to the plan.
Everything here is a pure function of the integer seed and of the code under test.
"""
import base64
import collections
import hashlib
import json
import os
import random
import re
import shutil
import signal
import subprocess
import threading
import time

from build import S4BIN, PRELOAD, VERIF

MASK = (1 << 64) - 1


def splitmix(x):
    x = (x + 0x9E3779B97F4A7C15) & MASK
    z = x
    z = ((z ^ (z >> 30)) * 0xBF58476D1CE4E5B9) & MASK
    z = ((z ^ (z >> 27)) * 0x94D049BB133111EB) & MASK
    return z ^ (z >> 31)


def derive(seed, *tags):
    """seed_i = splitmix(VERIF_SEED, property, i): independent streams per (property, run index)."""
    h = splitmix(seed & MASK)
    for t in tags:
        if isinstance(t, str):
            t = int.from_bytes(hashlib.sha256(t.encode()).digest()[:8], "big")
        h = splitmix(h ^ (t & MASK))
    return h


def rng_for(seed, *tags):
    return random.Random(derive(seed, *tags))


def scratch_root():
    r = os.environ.get("S4SIM_SCRATCH")
    if r:
        return r
    if os.path.isdir("/dev/shm") and os.access("/dev/shm", os.W_OK):
        return "/dev/shm/s4sim"
    return os.path.join(VERIF, "scratch")


# ------------------------------------------------------------------------------------------------
# scenario


class FileSpec:
    """One file of the simulated disk: relative path, stored bytes, modification time (seconds)."""

    __slots__ = ("path", "data", "mtime", "symlink_to")

    def __init__(self, path, data=b"", mtime=None, symlink_to=None):
        self.path = path
        self.data = data
        self.mtime = mtime
        self.symlink_to = symlink_to

    def to_json(self):
        d = {"path": self.path, "mtime": self.mtime}
        if self.symlink_to is not None:
            d["symlink_to"] = self.symlink_to
        else:
            d["data_b64"] = base64.b64encode(self.data).decode()
        return d

    @staticmethod
    def from_json(d):
        if "symlink_to" in d:
            return FileSpec(d["path"], b"", d.get("mtime"), d["symlink_to"])
        return FileSpec(d["path"], base64.b64decode(d["data_b64"]), d.get("mtime"))


class Scenario:
    """Simulated world for one run: disk content, argv, stdin, environment (TZ)."""

    def __init__(self, files, argv, stdin=None, tz="UTC", dirs=()):
        self.files = files          # list[FileSpec], created in this order
        self.argv = argv            # list[str]; paths relative to the run directory
        self.stdin = stdin          # bytes | None
        self.tz = tz
        self.dirs = list(dirs)      # extra (possibly empty) directories
        self.env = {}               # further environment of the process (e.g. RAYON_NUM_THREADS: the size of the pool jwalk uses)

    def to_json(self):
        return {"files": [f.to_json() for f in self.files], "argv": self.argv,
                "stdin_b64": None if self.stdin is None else base64.b64encode(self.stdin).decode(),
                "tz": self.tz, "dirs": self.dirs, "env": dict(self.env)}

    @staticmethod
    def from_json(d):
        s_ = Scenario([FileSpec.from_json(f) for f in d["files"]], d["argv"],
                      None if d.get("stdin_b64") is None else base64.b64decode(d["stdin_b64"]),
                      d.get("tz", "UTC"), d.get("dirs", ()))
        s_.env = dict(d.get("env") or {})
        return s_

    def digest(self):
        h = hashlib.sha256()
        for f in self.files:
            h.update(f.path.encode("utf-8", "surrogateescape"))
            h.update(b"\0")
            h.update(hashlib.sha256(f.data).digest())
            h.update(repr(f.mtime).encode())
        h.update(json.dumps(self.argv).encode())
        h.update(self.stdin or b"")
        h.update(self.tz.encode())
        return h.hexdigest()[:16]


POLICIES = ("random", "pct", "rr", "starve", "first", "lowest")


class Plan:
    """Schedule / fault / clock plan handed to s4_verif_rt through S4SIM_PLAN."""

    def __init__(self, seed=0, policy="random", stick=0, pct_depth=0, pct_steps=1000,
                 select_pick="random", signals=(), budget=200000, post_budget=2000, post_rr=True,
                 now=None, choices=None, picks=None, hashseed=None, iofault=None, timeouts=1, writer_pref=False):
        self.seed = seed
        self.policy = policy
        self.stick = stick
        self.pct_depth = pct_depth
        self.pct_steps = pct_steps
        self.select_pick = select_pick
        self.signals = list(signals)
        self.budget = budget
        self.post_budget = post_budget
        self.post_rr = post_rr
        self.now = now              # (secs, nanos) | None
        self.choices = choices
        self.picks = picks
        self.hashseed = hashseed if hashseed is not None else (seed & 0xFFFFFFFF)
        self.writer_pref = writer_pref      # RwLock readers queue behind a waiting writer (std's behaviour on Linux)
        self.timeouts = timeouts    # deadlines that may expire although other threads could run (rt/src/chan.rs)
        self.iofault = iofault      # None | "sw=<seed>" | "epipe=<N>" | "enospc=<N>" (';'-joined): see preload/seed.c

    def text(self, trace_path):
        L = ["seed=%d" % self.seed, "policy=%s" % self.policy, "stick=%d" % self.stick,
             "pct_depth=%d" % self.pct_depth, "pct_steps=%d" % self.pct_steps,
             "select_pick=%s" % self.select_pick,
             "signals=%s" % ",".join(str(s) for s in self.signals),
             "budget=%d" % self.budget, "post_budget=%d" % self.post_budget,
             "post_rr=%d" % (1 if self.post_rr else 0), "timeouts=%d" % getattr(self, "timeouts", 1),
             "writer_pref=%d" % (1 if getattr(self, "writer_pref", False) else 0)]
        if self.now is not None:
            L.append("now=%d.%09d" % (self.now[0], self.now[1]))
        if getattr(self, "stdin_delay", None):
            L.append("stdin_delay=%d" % self.stdin_delay)       # seconds the path list on stdin takes to arrive (rt/src/clock.rs)
        if getattr(self, "append", None):
            # (step, path relative to the run directory, bytes): a writer outside the program appends to a log at that step
            L.append("append=%d:%s:%s" % (self.append[0], self.append[1], bytes(self.append[2]).hex()))
        if self.choices is not None:
            L.append("choices=%s" % ",".join(str(c) for c in self.choices))
        if self.picks is not None:
            L.append("picks=%s" % ",".join(str(c) for c in self.picks))
        if trace_path:
            L.append("trace=%s" % trace_path)
        return "\n".join(L) + "\n"

    def to_json(self):
        d = dict(self.__dict__)
        if d.get("append"):
            d["append"] = [d["append"][0], d["append"][1], bytes(d["append"][2]).hex()]
        return d

    @staticmethod
    def from_json(d):
        p = Plan()
        p.__dict__.update(d)
        if getattr(p, "append", None):
            a = p.append
            p.append = (a[0], a[1], bytes.fromhex(a[2]) if isinstance(a[2], str) else bytes(a[2]))
        if p.now is not None:
            p.now = tuple(p.now)
        return p

    def as_replay(self, trace):
        """The same run expressed as an explicit choice list (exact replay, input of the minimiser)."""
        q = Plan.from_json(json.loads(json.dumps(self.to_json())))
        q.policy = "replay"
        q.choices = trace.branch_choices()
        q.picks = trace.select_picks()
        q.post_rr = False if not self.signals else self.post_rr
        return q


def random_plan(rng, n_workers, signals=(), now=None, budget=200000, policies=None):
    """Swarm-style: policy, stickiness, select-pick and hash seed all vary per run."""
    pol = rng.choice(policies or ("random", "random", "random", "pct", "pct", "rr", "starve_main",
                                  "starve_worker", "first_worker", "lowest"))
    kw = {}
    if pol == "random":
        kw["stick"] = rng.choice((0, 0, 300, 700, 950))
    elif pol == "pct":
        kw["pct_depth"] = rng.choice((1, 2, 3))
        kw["pct_steps"] = rng.choice((50, 200, 1000))
    elif pol == "starve_main":
        pol = "starve:0"
        kw["stick"] = rng.choice((0, 500))
    elif pol == "starve_worker":
        pol = "starve:%d" % (2 + rng.randrange(max(1, n_workers)))
        kw["stick"] = rng.choice((0, 500))
    elif pol == "first_worker":
        pol = "first:%d" % (2 + rng.randrange(max(1, n_workers)))
    plan = Plan(seed=rng.getrandbits(63), policy=pol, select_pick=rng.choice(("random", "random", "lowest", "highest")),
                signals=signals, now=now, budget=budget, **kw)
    # one run in four: stdout accepts only part of most writes (a pipe may; the bytes printed must not change)
    if rng.random() < 0.25:
        plan.iofault = "sw=%d" % rng.getrandbits(31)
    plan.timeouts = rng.choice((0, 1, 1, 2, 4))
    plan.writer_pref = rng.random() < 0.5
    # one run in five: reads of the input files (and of extracted copies) return fewer bytes than asked for in most calls
    if rng.random() < 0.2:
        sr = "sr=%d" % rng.getrandbits(31)
        plan.iofault = sr if not plan.iofault else plan.iofault + ";" + sr
    return plan


# ------------------------------------------------------------------------------------------------
# trace


class Trace:
    """Parsed event trace of one run (vocabulary: DESIGN.md appendix B)."""

    def __init__(self, text):
        self.lines = text.split("\n") if text else []
        if self.lines and self.lines[-1] == "":
            self.lines.pop()
        self.sched = []      # (step, tid, op, enabled[list], branch)
        self.recv = []       # (step, pathid, kind, dt, last)
        self.prints = []     # (step, pathid, dt, last, pending[(pathid, dt)], info_outstanding)
        self.disconnects = []
        self.picks = []      # (step, k, n, chan)
        self.ntf = []        # (step, kind, file)
        self.z = None        # (step, what, rest)
        self.exit = None     # (step, code, steps_after_signal)
        self.signals_delivered = []
        self.handler_returned = []
        self.default_action_at = None    # step at which a SIGINT met no handler (process ended by the default action)
        self.loop_exit = None
        self.threads = {}    # tid -> name
        self.finished = []   # (step, tid)
        self.panic = None
        self.blocked = []    # (step, "T2:send:0", ...)
        for ln in self.lines:
            if not ln:
                continue
            c = ln[0]
            f = ln.split(" ")
            try:
                if c == "S":
                    en = [int(x) for x in f[4][3:].split(",") if x]
                    bl = ()
                    br = False
                    for extra in f[5:]:
                        if extra == "B":
                            br = True
                        elif extra.startswith("bl="):
                            bl = tuple(extra[3:].split(","))
                    self.sched.append((int(f[1]), int(f[2][1:]), f[3], en, br))
                    if bl:
                        self.blocked.append((int(f[1]), bl))
                elif c == "R":
                    kv = dict(x.split("=", 1) for x in f[3:])
                    self.recv.append((int(f[1]), int(kv["pathid"]), kv["kind"], int(kv["dt"]), kv["last"] == "1"))
                elif c == "P":
                    kv = dict(x.split("=", 1) for x in f[3:])
                    pend = []
                    body = kv["pending"][1:-1]
                    if body:
                        for it in body.split(","):
                            a, b = it.split(":")
                            pend.append((int(a), int(b)))
                    self.prints.append((int(f[1]), int(kv["pathid"]), int(kv["dt"]), kv["last"] == "1", pend,
                                        kv["info_outstanding"] == "1"))
                elif c == "D":
                    self.disconnects.append((int(f[1]), int(f[3].split("=")[1])))
                elif c == "K":
                    k, n = f[2].split("=")[1].split("/")
                    self.picks.append((int(f[1]), int(k), int(n), int(f[3].split("=")[1])))
                elif c == "T":
                    self.ntf.append((int(f[1]), f[3], f[4].split("=", 1)[1] if len(f) > 4 else "",
                                     int(f[5].split("=", 1)[1]) if len(f) > 5 else -1))
                elif c == "Z":
                    if f[2] == "PANIC":
                        self.panic = (int(f[1]), " ".join(f[3:]))
                    else:
                        self.z = (int(f[1]), f[2], " ".join(f[3:]))
                elif c == "X":
                    kv = dict(x.split("=", 1) for x in f[3:])
                    self.exit = (int(f[1]), int(kv["code"]), int(kv["steps_after_signal"]))
                elif c == "G":
                    if f[2] == "signal_default_action":
                        self.default_action_at = int(f[1])
                    if f[2] == "signal_delivered":
                        self.signals_delivered.append(int(f[1]))
                    else:
                        self.handler_returned.append(int(f[1]))
                elif c == "Q":
                    kv = dict(x.split("=", 1) for x in f[3:])
                    self.loop_exit = (int(f[1]), int(kv["pending"]))
                elif c == "N":
                    self.threads[int(f[2][1:])] = ln.split("name=", 1)[1]
                elif c == "F":
                    self.finished.append((int(f[1]), int(f[2][1:])))
            except (IndexError, ValueError, KeyError):
                # a torn last line (process killed mid-write) is tolerated; anything else is kept raw
                continue

    @property
    def steps(self):
        return self.sched[-1][0] if self.sched else 0

    def branch_choices(self):
        return [tid for (_, tid, _, _, br) in self.sched if br]

    def select_picks(self):
        return [k for (_, k, _, _) in self.picks]

    def decision_hash(self):
        h = hashlib.sha256()
        for (_, tid, op, _, br) in self.sched:
            if br:
                h.update(("%d:%s;" % (tid, op.split(":")[0])).encode())
        return h.hexdigest()[:16]

    def arrival_hash(self):
        h = hashlib.sha256()
        for (_, pathid, kind, _, _) in self.recv:
            h.update(("%d:%s;" % (pathid, kind)).encode())
        return h.hexdigest()[:16]


# ------------------------------------------------------------------------------------------------
# execution


class Result:
    __slots__ = ("stdout", "stderr", "rc", "trace", "tmp_left", "wall", "timed_out", "workdir")

    def __init__(self):
        self.stdout = b""
        self.stderr = b""
        self.rc = None
        self.trace = None
        self.tmp_left = []
        self.wall = 0.0
        self.timed_out = False
        self.workdir = None

    def crashed(self):
        """panic / abort / fatal signal / exit status outside {0,1} (simulator verdict codes excluded)."""
        if self.rc is None:
            return False
        if self.rc < 0:
            return True
        return self.rc not in (0, 1, 95, 96, 97, 98, 99)


_RUN_COUNTER = [0]
IOFAULT_RUNS = collections.Counter()

try:
    import ctypes
    _LIBC = ctypes.CDLL("libc.so.6", use_errno=True)
except OSError:     # pragma: no cover
    _LIBC = None


ADDRESS_SPACE_LIMIT = None      # bytes; set by a check (C07) so that an allocation sized by a damaged length field fails


def _child_setup():
    """runs in the forked child before exec: if the driver worker dies (pool.terminate, crash, Ctrl-C) the
    simulated process is killed with it -- a hung s4 must never outlive its run and burn a core"""
    if _LIBC is not None:
        _LIBC.prctl(1, signal.SIGKILL)      # PR_SET_PDEATHSIG
    if ADDRESS_SPACE_LIMIT:
        import resource
        resource.setrlimit(resource.RLIMIT_AS, (ADDRESS_SPACE_LIMIT, ADDRESS_SPACE_LIMIT))

FINGERPRINTS = None     # when a list: every execute() appends (stdout sha, rc, normalised trace sha, tmp_left count)
_TMPNAME = re.compile(r"s4-[A-Za-z0-9_]{6}")


def fingerprint(res):
    t = "\n".join(res.trace.lines) if res.trace is not None else ""
    t = _TMPNAME.sub("s4-*", t)
    return (hashlib.sha256(res.stdout).hexdigest()[:16], res.rc, hashlib.sha256(t.encode()).hexdigest()[:16], len(res.tmp_left))


def materialise(scn, wd):
    os.makedirs(wd, exist_ok=True)
    os.makedirs(os.path.join(wd, "tmp"), exist_ok=True)
    for d in scn.dirs:
        os.makedirs(os.path.join(wd, d), exist_ok=True)
    for f in scn.files:
        p = os.path.join(wd, f.path)
        os.makedirs(os.path.dirname(p), exist_ok=True)
        if f.symlink_to is not None:
            os.symlink(f.symlink_to, p)
            continue
        with open(p, "wb") as fh:
            fh.write(f.data)
    # mtimes after all writes (directories are not stamped; nothing reads them)
    for f in scn.files:
        if f.mtime is not None and f.symlink_to is None:
            os.utime(os.path.join(wd, f.path), (f.mtime, f.mtime))


# While a violation is being minimised the engine sets a wall-clock budget: candidates that hang cost one (shortened) cap
# each, and without a budget a hang found in a large scenario keeps the minimiser busy for hours.
MINIMISE_DEADLINE = [None]


def budget_ok():
    d = MINIMISE_DEADLINE[0]
    return d is None or time.time() < d


def execute(scn, plan, keep=False, wall_cap=30.0, binary=None, want_trace=True, retry=True, retry_cap=None):
    """Run one simulated execution. Returns Result. The run directory is removed unless keep.

    A run that hits the wall-clock cap is re-run once *in isolation* (one such re-run at a time across all
    workers, generous cap) before the timeout may count: machine load must not raise an alarm. Scheduler-level
    DEADLOCK / LIVELOCK verdicts are deterministic and need no re-run."""
    if MINIMISE_DEADLINE[0] is not None:
        # minimising: a candidate that hangs is given 12 s, once (the written file is confirmed afterwards under the full caps)
        return _execute_once(scn, plan, keep, min(wall_cap, 12.0), binary, want_trace)
    res = _execute_once(scn, plan, keep, wall_cap, binary, want_trace)
    if res.timed_out and retry:
        import fcntl
        os.makedirs(scratch_root(), exist_ok=True)
        with open(os.path.join(scratch_root(), ".retry.lock"), "w") as lk:
            fcntl.flock(lk, fcntl.LOCK_EX)
            res = _execute_once(scn, plan, keep, retry_cap or max(60.0, 3 * wall_cap), binary, want_trace)
    return res


def _execute_once(scn, plan, keep, wall_cap, binary, want_trace):
    _RUN_COUNTER[0] += 1
    wd = os.path.join(scratch_root(), "p%d" % os.getpid(), "r%d" % _RUN_COUNTER[0])
    if os.path.exists(wd):
        shutil.rmtree(wd)
    res = Result()
    try:
        materialise(scn, wd)
        meta = os.path.join(wd, ".sim")
        os.makedirs(meta)
        trace_path = os.path.join(meta, "trace") if want_trace else None
        with open(os.path.join(meta, "plan"), "w") as fh:
            fh.write(plan.text(trace_path))
        env = {
            "PATH": "/usr/bin:/bin",
            "TZ": scn.tz,
            "TMPDIR": os.path.join(wd, "tmp"),
            "S4SIM_PLAN": os.path.join(meta, "plan"),
            "LD_PRELOAD": PRELOAD,
            "S4SIM_HASHSEED": str(plan.hashseed),
            "HOME": wd,
            "LANG": "C.UTF-8",
        }
        env.update(getattr(scn, "env", None) or {})
        if os.environ.get("S4SIM_LLVM_PROFILE"):      # reach measurement only (tools/coverage.sh)
            env["LLVM_PROFILE_FILE"] = os.environ["S4SIM_LLVM_PROFILE"]
        if getattr(plan, "iofault", None):
            env["S4SIM_IOFAULT"] = plan.iofault
            for part in plan.iofault.split(";"):
                IOFAULT_RUNS[part.split("=")[0]] += 1
        so = open(os.path.join(meta, "stdout"), "wb")
        se = open(os.path.join(meta, "stderr"), "wb")
        t0 = time.time()
        try:
            if scn.stdin is not None:
                with open(os.path.join(meta, "stdin"), "wb") as fh:
                    fh.write(scn.stdin)
                si = open(os.path.join(meta, "stdin"), "rb")
            else:
                si = subprocess.DEVNULL
            p = subprocess.Popen([binary or S4BIN] + list(scn.argv), cwd=wd, env=env, stdin=si, stdout=so, stderr=se,
                                 preexec_fn=_child_setup)
            if si is not subprocess.DEVNULL:
                si.close()

            # blocking waitpid + watchdog (subprocess' own timeout polls with sleeps of up to 50 ms)
            def _kill():
                res.timed_out = True
                try:
                    p.send_signal(signal.SIGKILL)
                except ProcessLookupError:
                    pass
            wd_timer = threading.Timer(wall_cap, _kill)
            wd_timer.daemon = True
            wd_timer.start()
            try:
                p.wait()
            finally:
                wd_timer.cancel()
            res.rc = p.returncode
        finally:
            so.close()
            se.close()
        res.wall = time.time() - t0
        res.stdout = open(os.path.join(meta, "stdout"), "rb").read()
        res.stderr = open(os.path.join(meta, "stderr"), "rb").read()
        if want_trace:
            try:
                res.trace = Trace(open(trace_path, "r", errors="replace").read())
            except FileNotFoundError:
                res.trace = Trace("")
        res.tmp_left = sorted(os.listdir(os.path.join(wd, "tmp")))
        res.workdir = wd
        if FINGERPRINTS is not None and not res.timed_out:
            FINGERPRINTS.append(fingerprint(res))
        return res
    finally:
        if not keep:
            shutil.rmtree(wd, ignore_errors=True)


def cleanup_scratch():
    shutil.rmtree(os.path.join(scratch_root(), "p%d" % os.getpid()), ignore_errors=True)


def purge_stale_scratch():
    """remove run directories of driver processes that no longer exist (pool workers are terminated without atexit)"""
    root = scratch_root()
    try:
        names = os.listdir(root)
    except FileNotFoundError:
        return
    for n in names:
        m = re.match(r"^p(\d+)$", n)
        if m and not os.path.exists("/proc/%s" % m.group(1)):
            shutil.rmtree(os.path.join(root, n), ignore_errors=True)
    jd = os.path.join(root, "journals")
    if os.path.isdir(jd):
        for n in os.listdir(jd):
            m = re.search(r"-(\d+)\.journal$", n)
            if m and not os.path.exists("/proc/%s" % m.group(1)):
                try:
                    os.unlink(os.path.join(jd, n))
                except OSError:
                    pass
