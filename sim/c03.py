"""C03 -- a datetime window selects exactly the messages inside it.

Reference model: a message is printed iff A <= t <= B on instants known by construction (both
bounds inclusive, a missing bound is unbounded); the selected messages keep their un-windowed
order; an empty selection prints nothing and exits 0. Bounds are placed before / between / exactly
on / after message instants, A = B, sub-second, only A, only B. Text sources are non-decreasing with
ties (binary search on plain files, linear search on streamed ones); generated accounting-record
files hold records in any order. Block sizes put the first qualifying message at block boundaries.
"""
import core
import engine
import merge
import mergecheck
import tracecheck
import world
from engine import Violation, CaseResult

PROP = "C03"


def fmt_bound(rng, ns):
    """one of the documented absolute spellings, microsecond or millisecond or second precision as the value allows"""
    secs, rem = divmod(ns, 1_000_000_000)
    off = rng.choice((0, 0, 60, -300, 330, -690))
    y, mo, d, h, mi, s, _ = world.civil(secs * 1_000_000_000, off)
    us = rem // 1000
    if us == 0 and rng.random() < 0.5:
        frac = ""
    elif us % 1000 == 0 and rng.random() < 0.5:
        frac = ".%03d" % (us // 1000)
    else:
        frac = ".%06d" % us
    sign = "+" if off >= 0 else "-"
    a = abs(off)
    style = rng.randrange(4)
    if style == 0:
        return "%04d-%02d-%02dT%02d:%02d:%02d%s%s%02d:%02d" % (y, mo, d, h, mi, s, frac, sign, a // 60, a % 60)
    if style == 1:
        return "%04d%02d%02dT%02d%02d%02d%s%s%02d%02d" % (y, mo, d, h, mi, s, frac, sign, a // 60, a % 60)
    if style == 2:
        return "%04d/%02d/%02d %02d:%02d:%02d%s %s%02d:%02d" % (y, mo, d, h, mi, s, frac, sign, a // 60, a % 60)
    return "%04d-%02d-%02d %02d:%02d:%02d%s %s%02d%02d" % (y, mo, d, h, mi, s, frac, sign, a // 60, a % 60)


def place(rng, ts):
    """a bound relative to the sorted distinct instants ts (ns, microsecond aligned)"""
    lo, hi = ts[0], ts[-1]
    r = rng.random()
    if r < 0.35:
        return rng.choice(ts)                       # exactly on a message instant
    if r < 0.5:
        return rng.choice(ts) + rng.choice((-1000, 1000, -1_000_000, 1_000_000))  # 1 us / 1 ms off
    if r < 0.6:
        return lo - rng.choice((1000, 1_000_000_000, 86400_000_000_000))
    if r < 0.7:
        return hi + rng.choice((1000, 1_000_000_000, 86400_000_000_000))
    if len(ts) > 1 and r < 0.9:
        k = rng.randrange(len(ts) - 1)
        mid = (ts[k] + ts[k + 1]) // 2
        return mid - mid % 1000
    x = rng.randint(lo - 10**9, hi + 10**9)
    return x - x % 1000


def rel_spec(delta_s, rng):
    """-<delta> in the documented relative spelling: one unit or several"""
    if delta_s == 0 or rng.random() < 0.3:
        return "-%ds" % delta_s
    d, r = divmod(delta_s, 86400)
    h, r = divmod(r, 3600)
    m, sec = divmod(r, 60)
    out = "-" + "".join("%d%s" % (v, u) for (v, u) in ((d, "d"), (h, "h"), (m, "m"), (sec, "s")) if v)
    return out


def gen_case(rng):
    bsz = rng.choice((64, 100, 128, 256, 512, 4096, 65536))
    n = rng.choice((1, 1, 2, 3))
    relative = rng.random() < 0.12      # bounds given relative to the (simulated) program start, under a --tz-offset
    kw = {"notations": (1, 1, 2, 3)} if relative else {"notations": merge.NOTATIONS_WIDE}      # zone-less stamps would be read in the --tz-offset zone
    srcs = merge.gen_sources(rng, n, bsz, max_msgs=rng.choice((4, 12, 40)),
                             containers=("plain", "plain", "plain", "gz", "bz2", "xz", "lz4"),
                             allow_degenerate=False, tie_heavy=rng.random() < 0.6, frac_choices=(3, 3, 6, 1),
                             first_line_max=None, **kw)
    ts = sorted(set(m.instant for s in srcs for m in s.msgs))
    form = rng.choice(("both",) * 9 + ("only_a",) * 3 + ("only_b",) * 3 + ("a_eq_b",) * 3 + ("a_after_b",))
    a = place(rng, ts) if form != "only_b" else None
    b = place(rng, ts) if form != "only_a" else None
    if form == "a_eq_b":
        b = a
    if form == "a_after_b":
        # an empty window: no instant satisfies A <= t <= B, nothing may be printed (s4 refuses the pair with an error)
        if a <= b:
            a, b = b + 1_000_000, a
    elif a is not None and b is not None and a > b:
        a, b = b, a
    now = None
    if relative and form != "a_after_b":
        NS = 1_000_000_000
        if a is not None:
            a -= a % NS
        if b is not None:
            b -= b % NS
        latest = max([x for x in (a, b) if x is not None] + [ts[-1]]) // NS
        now_s = latest + rng.choice((0, 1, 59, 3600, 86400 * 3 + 7))
        tzo_min = rng.choice((0, 180, -120, 330, -690))
        tzo = "%s%02d:%02d" % ("+" if tzo_min >= 0 else "-", abs(tzo_min) // 60, abs(tzo_min) % 60)
        opts = ["--color", "never", "--blocksz", str(bsz), "--tz-offset=" + tzo]
        if a is not None:
            opts += ["-a=" + rel_spec(now_s - a // NS, rng)]
        if b is not None:
            opts += ["-b=" + rel_spec(now_s - b // NS, rng)]
        now = (now_s, rng.randrange(NS))
        form += "(relative_to_now)"
        return bsz, srcs, opts, a, b, form, now
    opts = ["--color", "never", "--blocksz", str(bsz), "--tz-offset", "+00:00"]
    if a is not None:
        opts += ["-a", fmt_bound(rng, a)]
    if b is not None:
        opts += ["-b", fmt_bound(rng, b)]
    return bsz, srcs, opts, a, b, form, now


def filtered(srcs, a, b):
    out = []
    for s in srcs:
        sel = [m for m in s.msgs if (a is None or m.instant >= a) and (b is None or m.instant <= b)]
        last_printed = bool(sel) and bool(s.msgs) and sel[-1] is s.msgs[-1]
        t = merge.Source(s.path, s.kind, sel, s.stored, s.plain, s.container, s.descr, s.mtime)
        t.last_is_file_last = last_printed
        out.append(t)
    return out


def model_stdout(srcs, a, b):
    f = filtered(srcs, a, b)
    out = bytearray()
    for (si, m, is_last) in merge.model_merge(f):
        out += m.data
        if is_last and f[si].last_is_file_last and not m.data.endswith(b"\n"):
            out += b"\n"
    return bytes(out)


VIA = ("c10", "c08", "c09", "c11")


def run_case(seed, i, tier):
    if i % 4 == 3:
        # "for every kind of source": event logs, accounting records, journals and year-less text logs (whose dates are
        # inferred before the window applies) are windowed by their own readers / passes;
        # their checks (independent evtx dump, generated records, journalctl) are run here too and reported under C03
        name = VIA[(i // 4) % len(VIA)]
        mod = __import__(name)
        mod.FORCE_WINDOW = True
        try:
            cr = mod.run_case(seed, i, tier)
        finally:
            mod.FORCE_WINDOW = False
        cr.probes = type(cr.probes)({("via_%s:%s" % (name, k)): v for k, v in cr.probes.items()})
        for v in cr.violations:
            if v.replay is not None:
                v.replay["via"] = name
            v.known = None if name != "c08" or not (v.known or "").startswith("F-C08") else v.known
        cr.violations = [v for v in cr.violations if v.known is None]
        if isinstance(cr.sample, dict):
            cr.sample["via"] = name
        return cr
    rng = core.rng_for(seed, PROP, i)
    bsz, srcs, opts, a, b, form, now = gen_case(rng)
    expected = model_stdout(srcs, a, b)
    cr = CaseResult()
    nw = mergecheck.n_workers(srcs)
    K = 1 if tier == "quick" else 2
    for k in range(K):
        prng = core.rng_for(seed, PROP, i, "plan", k)
        plan = core.random_plan(prng, nw, budget=mergecheck.step_budget(srcs, bsz) * 3)
        plan.hashseed = rng.getrandbits(32)
        if now is not None:
            plan.now = now
        _, res = mergecheck.run_once(srcs, opts, plan)
        tr = res.trace
        cr.runs += 1
        cr.steps += tr.steps
        cr.steps_max = max(cr.steps_max, tr.steps)
        cr.policies[plan.policy.split(":")[0]] += 1
        cr.probes["form_" + form] += 1
        total = sum(len(s.msgs) for s in srcs)
        sel = sum(len(s.msgs) for s in filtered(srcs, a, b))
        cr.probes["selection_empty" if sel == 0 else ("selection_all" if sel == total else "selection_partial")] += 1
        inst = set(m.instant for s in srcs for m in s.msgs)
        if a in inst or b in inst:
            cr.probes["bound_exactly_on_a_message_instant"] += 1
        for s in srcs:
            cr.probes["search_" + ("binary(plain)" if s.container == "plain" else "linear(streamed)")] += 1
        cr.decision_hashes.append(tr.decision_hash())
        cr.arrival_hashes.append(tr.arrival_hash())
        cr.nontrivial_keys.append(core.derive(0, merge.scenario_for(srcs, opts).digest()))
        vs = mergecheck.evaluate(res, expected, check_protocol=False)
        if not vs and sel == 0 and res.rc != 0 and not form.startswith("a_after_b"):
            vs.append(("empty_selection_is_an_error", "exit status %s with an empty selection; stderr %r" % (res.rc, res.stderr[-200:])))
        for (cls, detail) in vs:
            rp = {"kind": "c03", "sources": mergecheck.sources_to_json(srcs), "opts": opts, "a": a, "b": b,
                  "plan": plan.as_replay(tr).to_json(), "class": cls}
            cr.violations.append(Violation(cls, "form=%s a=%s b=%s opts=%s sources=%s: %s" % (
                form, a, b, opts, merge.describe(srcs), detail), rp))
        if vs:
            break
    cr.sample = {"argv": opts + [s.path for s in srcs], "sources": merge.describe(srcs), "a_ns": a, "b_ns": b,
                 "selected": sum(len(s.msgs) for s in filtered(srcs, a, b))}
    return cr


def classes_of(rp):
    if rp.get("via"):
        return __import__(rp["via"]).classes_of(rp)
    srcs = mergecheck.sources_from_json(rp["sources"])
    plan = core.Plan.from_json(rp["plan"])
    _, res = mergecheck.run_once(srcs, rp["opts"], plan)
    cl = set(c for (c, _) in mergecheck.evaluate(res, model_stdout(srcs, rp["a"], rp["b"]), check_protocol=False))
    if not cl and sum(len(s.msgs) for s in filtered(srcs, rp["a"], rp["b"])) == 0 and res.rc != 0:
        cl.add("empty_selection_is_an_error")
    return cl


def replay(rp):
    cl = classes_of(rp)
    return (rp.get("class") in cl) if rp.get("class") else bool(cl)


RULE = ("one case = 1..3 generated chronological text logs (ties, ms/us precision, all containers) and a window whose "
        "bounds are placed exactly on / 1 us or 1 ms off / between / before / after message instants (both, only -a, "
        "only -b, A = B), written in a seed-chosen documented spelling and zone, with a seed-chosen block size; "
        "non-trivial = every run; distinct = scenario digest (content, window, options)")
ASSUMPTIONS = ["bounds have at most microsecond precision (the documented grammar accepts 3 or 6 fractional digits)",
               "one case in six runs the windowed accounting-record / journal / evtx cases of C08 / C09 / C10 (their own instants and independent readers) and reports under C03; C08's open findings F-C08b/F-C08c are not windows and are left to C08"]


def main(tier):
    n = 3000 if tier == "quick" else 150000
    cap = 300 if tier == "quick" else 1500
    return engine.run_check(PROP, "c03", tier, n, cap, "exploration", RULE, ASSUMPTIONS)
