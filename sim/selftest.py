"""./check selftest determinism [N]   every case of every check run twice (16 workers, then 1 worker):
                                     stdout hash, exit status, normalised event trace and TMPDIR
                                     listing of every simulated run must be identical pairwise.
   ./check selftest sensitivity      deliberate property-breaking edits applied to a scratch copy of
                                     /repo; each must make the named quick check report a violation.
"""
import json
import multiprocessing as mp
import os
import shutil
import subprocess
import sys
import time

import build
import core

MODS = ["c06", "c01", "c18", "c17", "c07", "c02", "c03", "c05", "c12", "c13", "c19", "c14", "c11", "c15", "c08", "c09", "c10"]


def _fp_case(args):
    mod_name, seed, i = args
    core.FINGERPRINTS = []
    mod = __import__(mod_name)
    try:
        cr = mod.run_case(seed, i, "quick")
        viol = sorted(v.cls for v in cr.violations if v.known is None)
    except Exception as e:  # noqa
        viol = ["EXC:" + repr(e)[:200]]
    fp = list(core.FINGERPRINTS)
    core.FINGERPRINTS = None
    return (mod_name, i, fp, viol)


def determinism(argv):
    n = int(argv[0]) if argv else 120
    seed = int(os.environ.get("VERIF_SEED", "20260101"))
    tasks = [(m, seed, i) for m in MODS for i in range(n if m not in ("c18", "c17", "c09") else max(10, n // 6))]
    t0 = time.time()
    with mp.Pool(16) as pool:
        a = {(m, i): (fp, v) for (m, i, fp, v) in pool.imap_unordered(_fp_case, tasks, chunksize=2)}
    t1 = time.time()
    with mp.Pool(3) as pool:     # a different worker count (and different process placement)
        b = {(m, i): (fp, v) for (m, i, fp, v) in pool.imap_unordered(_fp_case, tasks, chunksize=7)}
    core.cleanup_scratch()
    runs = sum(len(fp) for (fp, _) in a.values())
    bad = [(k, a[k], b[k]) for k in sorted(a) if a[k] != b[k]]
    # a case that differs is executed twice more, alone: only a difference that persists counts (machine load acts on the
    # parts that run real and uncontrolled inside a step, e.g. jwalk's one-second wait for its rayon pool)
    still = []
    for (k, x, y) in bad:
        (_, _, f1, v1) = _fp_case((k[0], seed, k[1]))
        (_, _, f2, v2) = _fp_case((k[0], seed, k[1]))
        if (f1, v1) != (f2, v2):
            still.append((k, (f1, v1), (f2, v2)))
    if bad:
        print("determinism: %d cases differed under load, %d of them still differ when executed alone" % (len(bad), len(still)))
    bad = still
    print("determinism: %d cases, %d simulated runs, each executed twice (16 workers %.0fs, 3 workers %.0fs): %d divergent" % (
        len(tasks), runs, t1 - t0, time.time() - t1, len(bad)))
    for (k, x, y) in bad[:10]:
        print("  DIVERGENT %s:\n    A=%s\n    B=%s" % (k, x, y))
    out = {"cases": len(tasks), "runs": runs, "divergent": len(bad), "seed": seed, "modules": MODS}
    os.makedirs(os.path.join(build.VERIF, "selftest_results"), exist_ok=True)
    with open(os.path.join(build.VERIF, "selftest_results", "determinism.json"), "w") as fh:
        json.dump(out, fh, indent=1)
    return 0 if not bad else 1


# (property whose quick check must fail, file, old text, new text, what the edit does)
MUTATIONS = [
    ("C01", "src/bin/s4.rs", "                .min_by(|x, y|", "                .max_by(|x, y|", "print the latest pending message instead of the earliest"),
    ("C06", "src/bin/s4.rs", "            if filter_.contains(pathid_chan.0) {\n                continue;\n            }", "            if false && filter_.contains(pathid_chan.0) {\n                continue;\n            }",
     "the coordinator also polls sources whose message is still pending (a newer message overwrites it, schedule permitting)"),
    ("C06", "src/bin/s4.rs", "        if MAP_PATHID_CHANRECVDATUM.read().unwrap().len() != map_pathid_datum.len()", "        if MAP_PATHID_CHANRECVDATUM.read().unwrap().len() > map_pathid_datum.len() + 1",
     "print although one live source has no pending message"),
    ("C03", "src/readers/syslinereader.rs", None, None, "skipped: see seeded/C03"),
    ("C02", "src/bin/s4.rs", "                    if is_last && !(*syslinep).ends_with_newline() {", "                    if false && is_last && !(*syslinep).ends_with_newline() {",
     "never supply the missing final newline"),
    ("C18", "src/bin/s4.rs", "    remove_named_temp_files_at_exit();\n", "    // remove_named_temp_files_at_exit();\n", "main no longer removes registered temporary files at exit"),
    ("C17", "src/bin/s4.rs", "                    syslogproc.drop_data_try(&syslinep_last);", "                    let _ = &syslinep_last;", "the worker never releases printed messages"),
    ("C19", "src/bin/s4.rs", "                            summaryprinted.bytes += sepb.len() as Count;\n                            summaryprinted.flushed += 1;\n                        }\n                    }\n                    // If a file's last char",
     "                            summaryprinted.flushed += 1;\n                        }\n                    }\n                    // If a file's last char", "separator bytes of text messages are not counted in the summary"),
    ("C19", "src/bin/s4.rs", 'match printer.print_fixedstruct(entry, &mut buffer_utmp) {\n                        Ok((printed_, flushed_)) => {\n                            printed = printed_ as Count;\n                            flushed = flushed_ as Count;\n                        }\n                        Err(_err) => {\n                            // Only print a printing error once and only for debug builds.\n                            if !has_print_err {\n                                has_print_err = true;\n                                // BUG: Issue #3 colorization settings in the context of a pipe\n                                de_err!("failed to print {}", _err);\n                            }\n                            defo!("print error, will disconnect channel {:?}", pathid);\n                            disconnect.push(*pathid);\n                        }\n                    }\n                    if sepb_print {\n                        write_stdout(sepb);\n                        if cli_opt_summary {\n                            summaryprinted.bytes += sepb.len() as Count;\n', 'match printer.print_fixedstruct(entry, &mut buffer_utmp) {\n                        Ok((printed_, flushed_)) => {\n                            printed = printed_ as Count;\n                            flushed = flushed_ as Count;\n                        }\n                        Err(_err) => {\n                            // Only print a printing error once and only for debug builds.\n                            if !has_print_err {\n                                has_print_err = true;\n                                // BUG: Issue #3 colorization settings in the context of a pipe\n                                de_err!("failed to print {}", _err);\n                            }\n                            defo!("print error, will disconnect channel {:?}", pathid);\n                            disconnect.push(*pathid);\n                        }\n                    }\n                    if sepb_print {\n                        write_stdout(sepb);\n                        if cli_opt_summary {\n                            \n', "separator bytes after accounting records are not counted in the summary (other-kinds conservation case)"),
    ("C15", "src/readers/filepreprocessor.rs", "        .sort(true)\n", "        .sort(false)\n", "directory entries are no longer sorted"),
    ("C11", "src/readers/syslogprocessor.rs", None, None, "skipped: see seeded/C11"),
    ("C08", "src/readers/fixedstructreader.rs", "            map_tv_pair_fo.insert((tv_pair, fo), fo);", "            map_tv_pair_fo.insert((tv_pair, 0), fo);", "records with equal times overwrite each other again"),
    ("C13", "src/printer/printers.rs", None, None, "skipped: see seeded/C13"),
    ("C12", "src/readers/linereader.rs", None, None, "skipped: see seeded/C12"),
    ("C05", "src/readers/blockreader.rs", "                        size_total += size;\n", "                        size_total += size;\n                        if size > 0 {\n                            size_total = blocksz_u;\n                        }\n",
     "lz4: one read() per block is taken as a full block again (short reads leave a zero-filled tail)"),
    ("C14", "src/bin/s4.rs", '                "^",\n                CGP_DUR_OFFSET_TYPE,', '                CGP_DUR_OFFSET_TYPE,', "relative filter values are searched, not matched from the start"),
    ("C09", "src/readers/journalreader.rs", "                if rts_filter_before.is_some_and(|em_filter| actual_epoch_usec != em_filter) {", "                if rts_filter_before.is_some() {", "the before bound is exclusive for journals again"),
    ("C10", "src/readers/evtxreader.rs", None, None, "skipped: see seeded/C10"),
    ("C07", "src/readers/fixedstructreader.rs", None, None, "skipped: see seeded/C07"),
]


def sensitivity(argv):
    """applies each edit to a scratch copy of /repo (never to /repo itself), builds it into a scratch target and runs the
    property's quick check against that build through S4SIM_REPO / a private target directory."""
    root = os.path.join(core.scratch_root(), "sens-%d" % os.getpid())
    res = []
    only = argv[0] if argv else None        # optional: run only the edits whose description contains this text
    for k, (prop, rel, old, new, what) in enumerate(MUTATIONS):
        if old is None or (only and only not in what):
            continue
        copy = os.path.join(root, "repo%d" % k)
        shutil.rmtree(copy, ignore_errors=True)
        os.makedirs(copy)
        subprocess.run(["git", "-C", build.REPO, "worktree", "add", "--detach", "-q", copy, "HEAD"], check=False)
        if not os.path.exists(os.path.join(copy, "Cargo.toml")):
            shutil.rmtree(copy, ignore_errors=True)
            shutil.copytree(build.REPO, copy, ignore=shutil.ignore_patterns("target", ".git"))
        p = os.path.join(copy, rel)
        s = open(p).read()
        if s.count(old) != 1:
            res.append((prop, what, "EDIT-DOES-NOT-APPLY"))
            subprocess.run(["git", "-C", build.REPO, "worktree", "remove", "--force", copy], check=False)
            continue
        open(p, "w").write(s.replace(old, new))
        env = dict(os.environ)
        env["S4SIM_REPO"] = copy
        env["S4SIM_TARGET"] = os.path.join(build.VERIF, "target", "sens")
        env["S4SIM_NO_EVIDENCE"] = "1"
        r = subprocess.run([sys.executable, "-B", os.path.join(build.VERIF, "sim", "main.py"), prop, "quick"], env=env,
                           stdout=subprocess.PIPE, stderr=subprocess.STDOUT, text=True)
        caught = r.returncode == 1 and "VIOLATION property=%s" % prop in r.stdout
        res.append((prop, what, "caught" if caught else "MISSED (exit %d): %s" % (r.returncode, r.stdout[-300:])))
        subprocess.run(["git", "-C", build.REPO, "worktree", "remove", "--force", copy], check=False)
        shutil.rmtree(copy, ignore_errors=True)
        print("%-4s %-8s %s" % (prop, res[-1][2][:60], what), flush=True)
    shutil.rmtree(root, ignore_errors=True)
    missed = [r for r in res if r[2] != "caught"]
    print("sensitivity: %d edits, %d caught, %d not" % (len(res), len(res) - len(missed), len(missed)))
    if only:
        return 0 if not missed else 1
    os.makedirs(os.path.join(build.VERIF, "selftest_results"), exist_ok=True)
    with open(os.path.join(build.VERIF, "selftest_results", "sensitivity.json"), "w") as fh:
        json.dump([{"property": p_, "edit": w_, "result": r_[:80]} for (p_, w_, r_) in res], fh, indent=1)
    return 0 if not missed else 1


def seeds(argv):
    """regression over the independently produced property-breaking changes in /verif/seeded: each patch is applied to a
    scratch worktree of /repo's HEAD (never to /repo itself), built into target/seeds, and the quick check of its property
    must exit 1 with a VIOLATION line. Optional arguments: seed ids to run (default: all)."""
    root = os.path.join(core.scratch_root(), "seeds-%d" % os.getpid())
    sdir = os.path.join(build.VERIF, "seeded")
    ids = argv or sorted(os.listdir(sdir))
    res = []
    for sid in ids:
        seed_dir = os.path.join(sdir, sid)
        if "/" in sid:
            # a candidate not (yet) saved under seeded/: a directory holding patch.diff and meta.json
            seed_dir, sid = sid.rstrip("/"), os.path.basename(sid.rstrip("/"))
        meta = json.load(open(os.path.join(seed_dir, "meta.json")))
        prop = meta.get("check_with") or meta["property"]      # (a few changes are left to a sibling check, see their verif_ran)
        copy = os.path.join(root, sid)
        shutil.rmtree(copy, ignore_errors=True)
        os.makedirs(root, exist_ok=True)
        subprocess.run(["git", "-C", build.REPO, "worktree", "add", "--detach", "-q", copy, "HEAD"], check=True)
        a = subprocess.run(["git", "-C", copy, "apply", os.path.join(seed_dir, "patch.diff")], stdout=subprocess.PIPE, stderr=subprocess.STDOUT, text=True)
        if a.returncode != 0:
            out = "PATCH-DOES-NOT-APPLY: " + a.stdout[-200:]
        else:
            env = dict(os.environ)
            env["S4SIM_REPO"] = copy
            env["S4SIM_TARGET"] = os.path.join(build.VERIF, "target", os.environ.get("S4SIM_SEEDS_TARGET", "seeds"))   # (shards of this selftest may run side by side, each with its own build directory)
            env["S4SIM_NO_EVIDENCE"] = "1"
            t0 = time.time()
            r = subprocess.run([sys.executable, "-B", os.path.join(build.VERIF, "sim", "main.py"), prop, "quick"], env=env,
                               stdout=subprocess.PIPE, stderr=subprocess.STDOUT, text=True)
            caught = r.returncode == 1 and "VIOLATION property=%s" % prop in r.stdout
            tail = [ln for ln in r.stdout.split("\n") if ln.startswith(prop + " quick")]
            out = ("caught" if caught else "MISSED (exit %d)" % r.returncode) + " | " + (tail[-1] if tail else r.stdout[-200:]) + " | %.0fs" % (time.time() - t0)
        res.append((sid, prop, out))
        subprocess.run(["git", "-C", build.REPO, "worktree", "remove", "--force", copy], check=False)
        shutil.rmtree(copy, ignore_errors=True)
        print("%-5s %s" % (sid, out[:200]), flush=True)
    shutil.rmtree(root, ignore_errors=True)
    missed = [r for r in res if not r[2].startswith("caught")]
    print("seeds: %d changes, %d caught, %d not" % (len(res), len(res) - len(missed), len(missed)))
    if not argv:
        os.makedirs(os.path.join(build.VERIF, "selftest_results"), exist_ok=True)
        with open(os.path.join(build.VERIF, "selftest_results", "seeds.json"), "w") as fh:
            json.dump([{"seed": a_, "property": b_, "result": c_[:200]} for (a_, b_, c_) in res], fh, indent=1)
    return 0 if not missed else 1


def main(argv):
    if not argv:
        print(__doc__)
        return 2
    if argv[0] == "determinism":
        return determinism(argv[1:])
    if argv[0] == "seeds":
        return seeds(argv[1:])
    if argv[0] == "sensitivity":
        return sensitivity(argv[1:])
    print(__doc__)
    return 2
