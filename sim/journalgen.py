"""A writer for systemd journal files (format of systemd 246..252, regular non-compact layout, Jenkins hashes,
no compression, no sealing), so that C09 / C01 / C03 are not limited to the four journals shipped in /repo/logs.

Written from the published on-disk format description (journal-def.h / JOURNAL_FILE_FORMAT): header, field and
data hash tables, FIELD / DATA / ENTRY / ENTRY_ARRAY objects, all 8-byte aligned, little-endian. The files are
meant for *readers*: everything a reader follows is filled in consistently (entry-array chain with varied array
capacities, per-entry items with matching hashes, hash-table chains, per-data entry lists, header counters).

Whether a generated file is what was intended is never assumed: every generated journal is read back with
`journalctl --file -o export` (the independent reader C09 already uses) and a case is used only when that reading
equals the generator's entry list; `selfcheck()` also runs `journalctl --verify` over samples.
"""
import struct

OBJ_DATA, OBJ_FIELD, OBJ_ENTRY, OBJ_DATA_HT, OBJ_FIELD_HT, OBJ_ENTRY_ARRAY = 1, 2, 3, 4, 5, 6
M32 = 0xFFFFFFFF


def _rot(x, k):
    return ((x << k) | (x >> (32 - k))) & M32


def jenkins64(key):
    """lookup3 hashlittle2 with both seeds 0, combined as systemd does: (c << 32) | b"""
    n = len(key)
    a = b = c = (0xDEADBEEF + n) & M32
    i = 0
    while n > 12:
        a = (a + int.from_bytes(key[i:i + 4], "little")) & M32
        b = (b + int.from_bytes(key[i + 4:i + 8], "little")) & M32
        c = (c + int.from_bytes(key[i + 8:i + 12], "little")) & M32
        a = (a - c) & M32; a ^= _rot(c, 4); c = (c + b) & M32
        b = (b - a) & M32; b ^= _rot(a, 6); a = (a + c) & M32
        c = (c - b) & M32; c ^= _rot(b, 8); b = (b + a) & M32
        a = (a - c) & M32; a ^= _rot(c, 16); c = (c + b) & M32
        b = (b - a) & M32; b ^= _rot(a, 19); a = (a + c) & M32
        c = (c - b) & M32; c ^= _rot(b, 4); b = (b + a) & M32
        i += 12
        n -= 12
    if n == 0:
        return (c << 32) | b
    t = key[i:i + n] + b"\x00" * (12 - n)
    a = (a + int.from_bytes(t[0:4], "little")) & M32
    b = (b + int.from_bytes(t[4:8], "little")) & M32
    c = (c + int.from_bytes(t[8:12], "little")) & M32
    c ^= b; c = (c - _rot(b, 14)) & M32
    a ^= c; a = (a - _rot(c, 11)) & M32
    b ^= a; b = (b - _rot(a, 25)) & M32
    c ^= b; c = (c - _rot(b, 16)) & M32
    a ^= c; a = (a - _rot(c, 4)) & M32
    b ^= a; b = (b - _rot(a, 14)) & M32
    c ^= b; c = (c - _rot(b, 24)) & M32
    return (c << 32) | b


def _align8(n):
    return (n + 7) & ~7


class Entry:
    def __init__(self, rt, mono, boot, fields):
        self.rt = rt            # microseconds since the epoch (receive time)
        self.mono = mono
        self.boot = boot        # 16 bytes
        self.fields = fields    # [(name bytes, value bytes)] in entry order


def build(entries, rng, seqnum_start=1, n_data_buckets=None, n_field_buckets=None, pad_to=None, state=0, compress_xz=False):
    """-> bytes of a journal file holding `entries` in the given order. compress_xz: DATA payloads of 512 bytes or more are
    stored XZ-compressed (object flag 1, header incompatible flag COMPRESSED_XZ), as journald stores long values; the reader
    hands such a value out from a per-file decompression buffer that the next decompression overwrites"""
    import lzma
    machine_id = bytes(rng.getrandbits(8) for _ in range(16))
    file_id = bytes(rng.getrandbits(8) for _ in range(16))
    seqnum_id = bytes(rng.getrandbits(8) for _ in range(16))
    header_size = 256
    nf = n_field_buckets or rng.choice((1, 3, 333))
    nd = n_data_buckets or rng.choice((1, 7, 2047))
    objs = []           # [offset, bytearray]
    pos = [header_size]

    def add(buf):
        off = pos[0]
        objs.append((off, buf))
        pos[0] = _align8(off + len(buf))
        return off

    def obj(typ, body, flags=0):
        return bytearray(struct.pack("<BB6xQ", typ, flags, 16 + len(body)) + body)
    any_compressed = [False]

    fht_obj = add(obj(OBJ_FIELD_HT, bytes(16 * nf)))
    dht_obj = add(obj(OBJ_DATA_HT, bytes(16 * nd)))
    fht = [[0, 0] for _ in range(nf)]
    dht = [[0, 0] for _ in range(nd)]
    bufs = {}           # offset -> bytearray (for later patching)
    for (o, b) in objs:
        bufs[o] = b
    fields = {}         # name -> offset
    field_tail_data = {}    # name -> offset of the last DATA in its next_field chain
    datas = {}          # payload -> offset
    data_entries = {}   # data offset -> [entry offsets]
    entry_offs = []
    dchain = fchain = 0

    def chain_insert(table, h, off, next_at):
        nonlocal_depth = 0
        b = table[h % len(table)]
        if b[0] == 0:
            b[0] = b[1] = off
        else:
            # walk to count depth (for the header statistic)
            cur = b[0]
            while cur:
                nonlocal_depth += 1
                (cur,) = struct.unpack_from("<Q", bufs[cur], next_at)
            struct.pack_into("<Q", bufs[b[1]], next_at, off)
            b[1] = off
        return nonlocal_depth

    seq = seqnum_start
    for e in entries:
        items = []
        xor = 0
        for (name, value) in e.fields:
            payload = name + b"=" + value
            h = jenkins64(payload)
            if payload not in datas:
                if name not in fields:
                    fh = jenkins64(name)
                    fb = obj(OBJ_FIELD, struct.pack("<QQQ", fh, 0, 0) + name)
                    fo = add(fb)
                    bufs[fo] = fb
                    fields[name] = fo
                    fchain = max(fchain, chain_insert(fht, fh, fo, 24))
                if compress_xz and len(payload) >= 512:
                    db = obj(OBJ_DATA, struct.pack("<QQQQQQ", h, 0, 0, 0, 0, 0) + lzma.compress(payload, format=lzma.FORMAT_XZ, check=lzma.CHECK_NONE, preset=0), flags=1)
                    any_compressed[0] = True
                else:
                    db = obj(OBJ_DATA, struct.pack("<QQQQQQ", h, 0, 0, 0, 0, 0) + payload)
                do = add(db)
                bufs[do] = db
                datas[payload] = do
                data_entries[do] = []
                dchain = max(dchain, chain_insert(dht, h, do, 24))
                # field -> data chain: FIELD.head_data_offset, then DATA.next_field_offset
                fo = fields[name]
                if name not in field_tail_data:
                    struct.pack_into("<Q", bufs[fo], 32, do)
                else:
                    struct.pack_into("<Q", bufs[field_tail_data[name]], 32, do)
                field_tail_data[name] = do
            do = datas[payload]
            if do not in [i[0] for i in items]:
                items.append((do, h))
                xor ^= h
        body = struct.pack("<QQQ", seq, e.rt, e.mono) + e.boot + struct.pack("<Q", xor)
        for (do, h) in items:
            body += struct.pack("<QQ", do, h)
        eb = obj(OBJ_ENTRY, body)
        eo = add(eb)
        bufs[eo] = eb
        entry_offs.append(eo)
        for (do, _) in items:
            data_entries[do].append(eo)
        seq += 1

    n_entry_arrays = 0

    def entry_array_chain(offs):
        """emit a chain of ENTRY_ARRAY objects of varied capacity holding offs; -> offset of the first"""
        nonlocal n_entry_arrays
        first = 0
        prev = None
        i = 0
        cap = rng.choice((1, 2, 4))
        while i < len(offs):
            chunk = offs[i:i + cap]
            body = struct.pack("<Q", 0) + b"".join(struct.pack("<Q", o) for o in chunk) + bytes(8 * (cap - len(chunk)))
            ab = obj(OBJ_ENTRY_ARRAY, body)
            ao = add(ab)
            bufs[ao] = ab
            n_entry_arrays += 1
            if prev is None:
                first = ao
            else:
                struct.pack_into("<Q", bufs[prev], 16, ao)
            prev = ao
            i += cap
            cap = min(cap * 2, 64) if rng.random() < 0.7 else cap
        return first

    main_array = entry_array_chain(entry_offs) if entry_offs else 0
    for (do, eos) in data_entries.items():
        if not eos:
            continue
        first = eos[0]
        arr = entry_array_chain(eos[1:]) if len(eos) > 1 else 0
        struct.pack_into("<QQQ", bufs[do], 40, first, arr, len(eos))

    # hash tables
    for k, b in enumerate(fht):
        struct.pack_into("<QQ", bufs[fht_obj], 16 + 16 * k, b[0], b[1])
    for k, b in enumerate(dht):
        struct.pack_into("<QQ", bufs[dht_obj], 16 + 16 * k, b[0], b[1])

    end = pos[0]
    total = end if not pad_to else max(end, pad_to)
    out = bytearray(total)
    for (o, b) in objs:
        out[o:o + len(b)] = b
    tail_obj = objs[-1][0]
    last_boot = entries[-1].boot if entries else bytes(16)
    hdr = b"LPKSHHRH" + struct.pack("<II", 0, 1 if any_compressed[0] else 0) + bytes([state]) + bytes(7) + file_id + machine_id + last_boot + seqnum_id
    hdr += struct.pack("<15Q", header_size, total - header_size, dht_obj + 16, 16 * nd, fht_obj + 16, 16 * nf, tail_obj, len(objs),
                       len(entries), (seq - 1) if entries else 0, seqnum_start if entries else 0, main_array,
                       entries[0].rt if entries else 0, entries[-1].rt if entries else 0, entries[-1].mono if entries else 0)
    hdr += struct.pack("<6Q", len(datas), len(fields), 0, n_entry_arrays, dchain, fchain)
    assert len(hdr) == header_size, len(hdr)
    out[:header_size] = hdr
    return bytes(out)


FIELD_NAMES = (b"PRIORITY", b"SYSLOG_IDENTIFIER", b"_PID", b"_UID", b"_COMM", b"_HOSTNAME", b"_TRANSPORT", b"SYSLOG_FACILITY",
               b"_SYSTEMD_UNIT", b"CODE_FILE", b"CODE_LINE", b"_CMDLINE", b"UNIT", b"X_EXTRA")


def gen_entries(rng, n, t0_us=None, pattern="increasing", binary_p=0.1, multiline_p=0.15, tag=b"J", long_p=0.0, nomsg_p=0.0):
    """n entries with unique MESSAGE texts ('<tag><index> ...'); receive times by pattern"""
    t = t0_us if t0_us is not None else 1_600_000_000_000_000 + rng.randrange(10**9) * 1000
    boots = [bytes(rng.getrandbits(8) for _ in range(16)) for _ in range(rng.choice((1, 1, 2)))]
    out = []
    mono = rng.randrange(10**9)
    host = b"host" + bytes([97 + rng.randrange(26)])
    for i in range(n):
        if pattern == "increasing":
            t += rng.choice((1, 7, 1000, 999_999, 1_000_000, 61_000_000))
        elif pattern == "ties":
            t += rng.choice((0, 0, 0, 1, 1_000_000))
        elif pattern == "same":
            pass
        elif pattern == "subsecond":
            t += rng.choice((1, 2, 10, 999))
        elif pattern == "stepped_back":
            # the wall clock was set back while the journal was being written: receive times are not monotone, sequence
            # numbers and monotonic times are; the journal's own order stays the order of the file
            t += rng.choice((1, 1000, 1_000_000))
            if i and rng.random() < 0.15:
                t -= rng.choice((90_000_000, 3_600_000_000, 5, 1_000_001))
        else:
            raise ValueError(pattern)
        mono += rng.choice((1, 50, 10**6))
        boot = boots[min(len(boots) - 1, i * len(boots) // max(1, n))]
        msg = tag + b"%04d " % i + bytes(rng.choice(b"abcdefghij klmnop") for _ in range(rng.randint(0, 40)))
        if rng.random() < multiline_p:
            msg += b"\n  second line " + b"%d" % rng.randrange(1000) + (b"\n\ttab line" if rng.random() < 0.3 else b"")
        if rng.random() < 0.1:
            msg += rng.choice((b" ", b"  ", b"\t", b" \t "))       # stored text may end in blanks; it is the stored text that must be shown
        fields = [(b"MESSAGE", msg)]
        for nm in rng.sample(FIELD_NAMES, rng.randint(0, 6)):
            if nm == b"PRIORITY":
                v = b"%d" % rng.randrange(8)
            elif nm in (b"_PID", b"_UID", b"CODE_LINE", b"SYSLOG_FACILITY"):
                v = b"%d" % rng.randrange(70000)
            elif nm == b"_HOSTNAME":
                v = host
            elif nm == b"X_EXTRA" and rng.random() < binary_p * 4:
                v = bytes(rng.getrandbits(8) for _ in range(rng.randint(1, 24)))       # binary value (export: length-prefixed)
            else:
                v = bytes(rng.choice(b"abcdefghijklmnopqrstuvwxyz-./_") for _ in range(rng.randint(1, 20)))
            fields.append((nm, v))
        if long_p and rng.random() < long_p:
            # values long enough for journald to store them compressed: a command line, a one-line stack trace, ...
            for nm in rng.sample((b"_CMDLINE", b"MESSAGE", b"X_TRACE", b"CODE_FILE"), rng.randint(1, 3)):
                v = bytes(rng.choice(b"abcdefghijklmnopqrstuvwxyz-./_ =:") for _ in range(rng.randint(520, 1800)))
                if nm == b"MESSAGE":
                    fields[0] = (b"MESSAGE", msg.split(b"\n")[0] + b" " + v)
                else:
                    fields = [f for f in fields if f[0] != nm] + [(nm, nm.lower() + b":" + v)]
        if len(fields) > 1 and rng.random() < 0.15:
            # a field may occur more than once in an entry, with different values
            nm = rng.choice([f for f in fields if f[0] != b"MESSAGE"])[0]
            fields.append((nm, b"second-" + bytes(rng.choice(b"abcdef") for _ in range(rng.randint(1, 8)))))
        if nomsg_p and rng.random() < nomsg_p and len(fields) > 1:
            # a structured record without a MESSAGE field (metrics, audit records): the cat rendering has no text for it
            fields = [f for f in fields if f[0] != b"MESSAGE"] + [(b"X_SAMPLE", b"%d" % i)]
        if rng.random() < 0.3:
            rng.shuffle(fields)
        out.append(Entry(t, mono, boot, fields))
    return out


def selfcheck(n_files=30):
    """every generated file must read back through journalctl as generated, and pass `journalctl --verify`"""
    import os
    import random
    import subprocess
    import tempfile
    import c09
    bad = 0
    d = tempfile.mkdtemp(prefix="jgen-", dir="/dev/shm")
    for k in range(n_files):
        rng = random.Random(k)
        ents = gen_entries(rng, rng.choice((0, 1, 2, 5, 40, 300)), pattern=rng.choice(("increasing", "ties", "same", "subsecond")))
        data = build(ents, rng, seqnum_start=rng.choice((1, 1000)), pad_to=rng.choice((None, 1 << 20)))
        p = os.path.join(d, "g%d.journal" % k)
        open(p, "wb").write(data)
        r = subprocess.run(["journalctl", "--file", p, "-o", "export", "--no-pager"], stdout=subprocess.PIPE, stderr=subprocess.PIPE)
        got = c09.parse_export(r.stdout)
        ok = len(got) == len(ents)
        if ok:
            for (g, e) in zip(got, ents):
                gd = [(a, b) for (a, b) in g if not a.startswith(b"__") and a != b"_BOOT_ID"]
                rt = int(dict(g)[b"__REALTIME_TIMESTAMP"])
                seen = []
                for f in e.fields:
                    if f not in seen:
                        seen.append(f)
                if sorted(gd) != sorted(seen) or rt != e.rt:
                    ok = False
                    break
        v = subprocess.run(["journalctl", "--verify", "--file", p], stdout=subprocess.PIPE, stderr=subprocess.STDOUT)
        print("file %d: %d entries, %d bytes: read-back %s, verify rc=%d %s" % (k, len(ents), len(data), "ok" if ok else "DIFFERS", v.returncode,
                                                                            v.stdout.decode(errors="replace").strip().split("\n")[-1][:150]))
        if not ok:
            bad += 1
            print(r.stderr.decode()[-300:])
        os.unlink(p)
    os.rmdir(d)
    return bad


if __name__ == "__main__":
    import sys
    sys.exit(1 if selfcheck() else 0)
