"""The simulated world that *wrote* the logs: text-log generator (with block-boundary targeting),
containers (.gz .bz2 .xz .lz4 .tar) with varied codec parameters, stored-data faults.

Every message generated here carries its instant (UTC nanoseconds) and its exact bytes, so the
reference models never have to parse what s4 parses.
"""
import bz2
import datetime as _dt
import gzip
import io
import lzma
import struct
import tarfile
import zlib

UTC = _dt.timezone.utc

# ------------------------------------------------------------------------------------------------
# timestamps

# notations: all among the first patterns of s4's table (cheap: s4 compiles regexes lazily in table order)
#   0: [YYYY/MM/DD HH:MM:SS.fff]            no zone -> read in --tz-offset
#   1: [YYYY/MM/DD HH:MM:SS.fff +ZZZZ]
#   2: {YYYY/MM/DD HH:MM:SS.fff +ZZ:ZZ}
#   3: (YYYY/MM/DD HH:MM:SS.fff +ZZ)        whole-hour zones only
NOTATIONS = (0, 1, 2, 3)
BRACKETS = {0: (b"[", b"]"), 1: (b"[", b"]"), 2: (b"{", b"}"), 3: (b"(", b")")}


def fmt_offset(off_min, style):
    sign = "+" if off_min >= 0 else "-"
    a = abs(off_min)
    if style == 1:
        return "%s%02d%02d" % (sign, a // 60, a % 60)
    if style == 2:
        return "%s%02d:%02d" % (sign, a // 60, a % 60)
    if style == 3:
        assert a % 60 == 0
        return "%s%02d" % (sign, a // 60)
    raise ValueError(style)


def civil(instant_ns, off_min):
    """(Y, M, D, h, m, s, ns) of the instant in the zone off_min minutes east of UTC."""
    secs, ns = divmod(instant_ns, 1_000_000_000)
    t = _dt.datetime.fromtimestamp(secs + off_min * 60, UTC)
    return t.year, t.month, t.day, t.hour, t.minute, t.second, ns


def stamp(instant_ns, off_min, notation, frac_digits=3):
    y, mo, d, h, mi, s, ns = civil(instant_ns, off_min)
    frac = ("%09d" % ns)[:frac_digits]
    lb, rb = BRACKETS[notation]
    core = "%04d/%02d/%02d %02d:%02d:%02d.%s" % (y, mo, d, h, mi, s, frac)
    if notation != 0:
        core += " " + fmt_offset(off_min, notation)
    return lb + core.encode() + rb


def line_head(rng, t_written, off, p):
    """the bytes up to and including the timestamp of a message's first line. Notations 0..3 put the stamp at column 0
    (cheap: first patterns of s4's table). Notations 4 and 5 put it *inside* the line, where only s4's wide patterns
    (searched over the first 1024 / 2056 bytes of a line) find it; 6 and 7 are unbracketed stamps at column 0 (6 zone-less,
    7 ISO 8601 with zone): 4 = a digit-free prefix of a per-file fixed length, then
    'YYYY-MM-DD HH:MM:SS.f +ZZZZ'; 5 = a JSON-lines record with a "timestamp" member."""
    if p.notation <= 3:
        return stamp(t_written, off, p.notation, p.frac_digits)
    y, mo, d, h, mi, sec, ns = civil(t_written, off)
    frac = ("%09d" % ns)[:p.frac_digits]
    if p.notation == 6:
        # the everyday form 'YYYY-MM-DD HH:MM:SS.f message': no bracket and no zone after the fraction, so the stamp ends
        # in a variable-length component (a reader that sees only part of it still sees a well-formed, different, stamp)
        return ("%04d-%02d-%02d %02d:%02d:%02d.%s" % (y, mo, d, h, mi, sec, frac)).encode()
    if p.notation == 8:
        # seconds since the epoch with a fraction, as `strace -ttt` writes them: a complete instant without a calendar year
        return ("%d.%s" % (t_written // 1_000_000_000, frac)).encode()
    if p.notation == 7:
        return ("%04d-%02d-%02dT%02d:%02d:%02d.%s%s" % (y, mo, d, h, mi, sec, frac, fmt_offset(off, 2))).encode()
    if p.notation == 4:
        pre = bytes(rng.choice(LETTERS + b"  ._-") for _ in range(p.prefix_len))
        core = "%04d-%02d-%02d %02d:%02d:%02d.%s %s" % (y, mo, d, h, mi, sec, frac, fmt_offset(off, 1))
        return (pre + b" " if pre else b"") + core.encode()
    lvl = bytes(rng.choice(LETTERS) for _ in range(p.prefix_len))
    core = "%04d-%02d-%02dT%02d:%02d:%02d.%s%s" % (y, mo, d, h, mi, sec, frac, fmt_offset(off, 2))
    return b'{"level":"' + lvl + b'","timestamp":"' + core.encode() + b'","message":"'


# ------------------------------------------------------------------------------------------------
# text logs

LETTERS = b"abcdefghijklmnopqrstuvwxyzABCDEFGHIJKLMNOPQRSTUVWXYZ"
PUNCT = b" .,;:!?_-=+*/<>|#@%&~^'\"`$\\"
# never a digit: a line without digits cannot parse as a timestamp in any of s4's notations
BODY_PLAIN = LETTERS + b"      " + PUNCT


_FAST_TABLE = bytes(BODY_PLAIN[i % len(BODY_PLAIN)] for i in range(256))


def fast_body(rng, n):
    """n body bytes (no digits, no newline) at C speed, for logs of hundreds of kilobytes"""
    return rng.randbytes(n).translate(_FAST_TABLE)


def gen_big_text_log(rng, total_bytes, line_len=(200, 1200), notation=1, t0=946684800_000_000_000, step_ns=1_000_000_000,
                     letter=b"B"):
    """large chronological log -> (content, [Msg])"""
    out = bytearray()
    msgs = []
    t = t0
    i = 0
    while len(out) < total_bytes:
        t += rng.choice((0, step_ns, step_ns, 3 * step_ns))
        head = (stamp(t, 0, notation, 3) if notation <= 3 else line_head(rng, t, 0, TextLogParams(notation=notation, frac_digits=3))) + b" " + letter + tag26(i, 5)
        m = head + b" " + fast_body(rng, rng.randint(*line_len)) + b"\n"
        if rng.random() < 0.1:
            m += b" cont " + fast_body(rng, rng.randint(1, 300)) + b"\n"
        out += m
        msgs.append(Msg(t, bytes(m), b""))
        i += 1
    return bytes(out), msgs


def tag26(n, width=3):
    s = b""
    for _ in range(width):
        s = bytes([97 + n % 26]) + s
        n //= 26
    return s


class Msg:
    __slots__ = ("instant", "data", "tag", "off_min")

    def __init__(self, instant, data, tag, off_min=0):
        self.instant = instant      # UTC ns
        self.data = data            # exact bytes in the file (all lines, incl. newlines)
        self.tag = tag
        self.off_min = off_min


def _body(rng, n, special):
    if n <= 0:
        return b""
    if special and rng.random() < special:
        pool = BODY_PLAIN + b"\x00\r\t\x7f" + bytes([0x80, 0xC3, 0xA9, 0xFF, 0xFE, 0xE2, 0x82, 0xAC])
    else:
        pool = BODY_PLAIN
    return bytes(rng.choice(pool) for _ in range(n))


class TextLogParams:
    def __init__(self, **kw):
        self.notation = 1
        self.frac_digits = 3
        self.off_min = 0                 # zone the timestamps are written in
        self.vary_offset = False         # per-message offsets (same notation)
        self.n_msgs = 10
        self.src_letter = b"A"
        self.bsz = 0                     # block size to aim boundaries at (0 = no targeting)
        self.boundary_p = 0.3
        self.long_p = 0.05               # lines of one to several blocks
        self.cont_p = 0.3                # probability a message has continuation lines
        self.max_cont = 3
        self.blank_p = 0.1               # blank continuation lines
        self.crlf_p = 0.0
        self.special = 0.0               # NUL / CR / non-UTF-8 bytes in bodies
        self.final_newline = True
        self.preamble_lines = 0          # lines before the first timestamped line
        self.instants = None             # explicit list of instants (len n_msgs) or None
        self.t0 = 946684800_000_000_000  # 2000-01-01
        self.steps = (0, 0, 1_000_000, 1_000_000_000, 3_600_000_000_000)
        self.body_len = (0, 40)
        self.prefix_len = 0              # notations 4 / 5: bytes before the stamp (fixed per file)
        self.__dict__.update(kw)


OFFSETS_ALL = (0, 60, -300, 330, -690, 840, -720, 540, 345)
OFFSETS_HOUR = (0, 60, -300, 840, -720, 540)


def gen_text_log(rng, p):
    """Returns (content bytes, [Msg...], preamble bytes)."""
    out = bytearray()
    for _ in range(p.preamble_lines):
        out += _body(rng, rng.randint(1, 30), p.special) + b"\n"
    preamble = bytes(out)
    msgs = []
    t = p.t0
    offs = OFFSETS_HOUR if p.notation == 3 else OFFSETS_ALL
    for i in range(p.n_msgs):
        if p.instants is not None:
            t = p.instants[i]
        elif i > 0:
            t += rng.choice(p.steps)
        off = rng.choice(offs) if (p.vary_offset and p.notation not in (0, 6, 8)) else p.off_min
        # the instant a message carries is the one its text denotes: truncate to the written precision
        t_written = t - (t % (10 ** (9 - p.frac_digits)))
        tag = p.src_letter + tag26(i)
        start = len(out)
        head = line_head(rng, t_written, off, p) + b" " + tag
        lines = [head]
        ncont = rng.randint(1, p.max_cont) if rng.random() < p.cont_p else 0
        for _ in range(ncont):
            lines.append(None)
        m = bytearray()
        for li, ln in enumerate(lines):
            pos = len(out) + len(m)
            eol = b"\r\n" if rng.random() < p.crlf_p else b"\n"
            if ln is None:
                if rng.random() < p.blank_p:
                    m += eol
                    continue
                base = b" " + tag
            else:
                base = ln
            # body length: short, long, or aimed at a block boundary
            r = rng.random()
            if p.bsz and r < p.boundary_p:
                # make this line end (offset just past its newline) at k*bsz + delta
                minimal = pos + len(base) + 1 + len(eol)
                k = minimal // p.bsz + 1 + (rng.randrange(3) if rng.random() < 0.2 else 0)
                # ... or 2..36 bytes short of it, so that the boundary falls at some inner byte of the *next* line's stamp
                # (inside the date, the time, the fraction, the zone)
                delta = rng.choice((-1, 0, 1, 0, -rng.randint(2, 36), -rng.randint(18, 30)))
                want_end = k * p.bsz + delta
                blen = want_end - (pos + len(base) + 1 + len(eol))
                if blen < 0:
                    blen += p.bsz
            elif p.bsz and r < p.boundary_p + p.long_p:
                blen = rng.randint(p.bsz, 3 * p.bsz)
            else:
                blen = rng.randint(*p.body_len)
            m += base + b" " + _body(rng, blen, p.special) + eol
        out += m
        msgs.append(Msg(t_written, bytes(m), tag, off))
        del start
    if not p.final_newline and msgs:
        last = msgs[-1]
        # strip the final line terminator of the file
        if last.data.endswith(b"\r\n"):
            cut = 1   # keep the CR as data, drop only the LF
        else:
            cut = 1
        last.data = last.data[:-cut]
        del out[-cut:]
    return bytes(out), msgs, preamble


# ------------------------------------------------------------------------------------------------
# containers


def to_gz(data, rng=None, level=None, mtime=0, name=None, extra=None, comment=None, hcrc=False):
    level = 6 if level is None else level
    buf = io.BytesIO()
    if extra is None and comment is None and not hcrc:
        with gzip.GzipFile(filename=name or "", mode="wb", compresslevel=level, fileobj=buf, mtime=mtime) as g:
            g.write(data)
        return buf.getvalue()
    # hand-made member so FEXTRA / FCOMMENT can be set
    flg = 0
    hdr = bytearray(b"\x1f\x8b\x08")
    if extra is not None:
        flg |= 4
    if name:
        flg |= 8
    if comment is not None:
        flg |= 16
    if hcrc:
        flg |= 2
    hdr.append(flg)
    hdr += struct.pack("<I", int(mtime) & 0xFFFFFFFF)
    hdr += b"\x00\x03"
    if extra is not None:
        hdr += struct.pack("<H", len(extra)) + extra
    if name:
        hdr += name.encode("latin-1", "replace") + b"\x00"
    if comment is not None:
        hdr += comment + b"\x00"
    if hcrc:
        hdr += struct.pack("<H", zlib.crc32(bytes(hdr)) & 0xFFFF)
    c = zlib.compressobj(level, zlib.DEFLATED, -15)
    body = c.compress(data) + c.flush()
    return bytes(hdr) + body + struct.pack("<II", zlib.crc32(data) & 0xFFFFFFFF, len(data) & 0xFFFFFFFF)


def to_bz2(data, level=9):
    return bz2.compress(data, level)


def to_xz(data, preset=6, check=lzma.CHECK_CRC32):
    return lzma.compress(data, format=lzma.FORMAT_XZ, check=check, preset=preset)


def _xz_varint(v):
    out = bytearray()
    while True:
        b = v & 0x7F
        v >>= 7
        if v:
            out.append(b | 0x80)
        else:
            out.append(b)
            return bytes(out)


def to_xz_multiblock(data, chunk, preset=6, check=lzma.CHECK_CRC32):
    """one xz stream holding several blocks (what `xz -T` / `xz --block-size` write): every chunk is compressed on its
    own, its block is lifted out of the single-block stream, and one index with a record per block is written"""
    if not data or chunk >= len(data):
        return to_xz(data, preset, check)
    header = flags = None
    blocks = []
    records = []
    for i in range(0, len(data), chunk):
        s1 = lzma.compress(data[i:i + chunk], format=lzma.FORMAT_XZ, check=check, preset=preset)
        header, flags = s1[:12], s1[-4:-2]
        bs = (struct.unpack("<I", s1[-8:-4])[0] + 1) * 4
        idx = s1[-12 - bs:-12]
        assert idx[0] == 0 and idx[1] == 1
        k = 2
        vals = []
        for _ in range(2):
            v = sh = 0
            while True:
                c = idx[k]
                k += 1
                v |= (c & 0x7F) << sh
                sh += 7
                if not c & 0x80:
                    break
            vals.append(v)
        records.append(tuple(vals))
        blocks.append(s1[12:-12 - bs])
    body = b"\x00" + _xz_varint(len(records)) + b"".join(_xz_varint(a) + _xz_varint(b) for (a, b) in records)
    body += b"\x00" * (-len(body) % 4)
    body += struct.pack("<I", zlib.crc32(body) & 0xFFFFFFFF)
    back = struct.pack("<I", len(body) // 4 - 1)
    footer = struct.pack("<I", zlib.crc32(back + flags) & 0xFFFFFFFF) + back + flags + b"YZ"
    out = header + b"".join(blocks) + body + footer
    assert lzma.decompress(out) == data
    return out


# --- xxhash32, needed for LZ4 frame header / content checksums

_P1, _P2, _P3, _P4, _P5 = 2654435761, 2246822519, 3266489917, 668265263, 374761393
_M32 = 0xFFFFFFFF


def _rotl(x, r):
    return ((x << r) | (x >> (32 - r))) & _M32


def xxh32(data, seed=0):
    n = len(data)
    i = 0
    if n >= 16:
        v1 = (seed + _P1 + _P2) & _M32
        v2 = (seed + _P2) & _M32
        v3 = seed & _M32
        v4 = (seed - _P1) & _M32
        while i <= n - 16:
            a, b, c, d = struct.unpack_from("<IIII", data, i)
            v1 = (_rotl((v1 + a * _P2) & _M32, 13) * _P1) & _M32
            v2 = (_rotl((v2 + b * _P2) & _M32, 13) * _P1) & _M32
            v3 = (_rotl((v3 + c * _P2) & _M32, 13) * _P1) & _M32
            v4 = (_rotl((v4 + d * _P2) & _M32, 13) * _P1) & _M32
            i += 16
        h = (_rotl(v1, 1) + _rotl(v2, 7) + _rotl(v3, 12) + _rotl(v4, 18)) & _M32
    else:
        h = (seed + _P5) & _M32
    h = (h + n) & _M32
    while i <= n - 4:
        (a,) = struct.unpack_from("<I", data, i)
        h = (_rotl((h + a * _P3) & _M32, 17) * _P4) & _M32
        i += 4
    while i < n:
        h = (_rotl((h + data[i] * _P5) & _M32, 11) * _P1) & _M32
        i += 1
    h ^= h >> 15
    h = (h * _P2) & _M32
    h ^= h >> 13
    h = (h * _P3) & _M32
    h ^= h >> 16
    return h


def _lz4_block_literals(chunk):
    """A valid *compressed* LZ4 block consisting of one literal-only sequence."""
    n = len(chunk)
    out = bytearray()
    if n < 15:
        out.append(n << 4)
    else:
        out.append(0xF0)
        r = n - 15
        while r >= 255:
            out.append(255)
            r -= 255
        out.append(r)
    out += chunk
    return bytes(out)


def to_lz4(data, rng=None, block_max_id=4, chunk=None, stored=True, content_checksum=False,
           block_checksum=False, content_size=False, independent=True):
    """LZ4 frame (v1). Blocks are at most `chunk` bytes (default: the frame's maximum block size),
    so the decoder hands data back in pieces whose size the simulation chooses. Blocks are either
    stored (uncompressed flag) or literal-only compressed blocks: both valid per the frame format."""
    maxsz = {4: 1 << 16, 5: 1 << 18, 6: 1 << 20, 7: 1 << 22}[block_max_id]
    if chunk is None or chunk > maxsz:
        chunk = maxsz
    flg = 0x40  # version 01
    if independent:
        flg |= 0x20
    if block_checksum:
        flg |= 0x10
    if content_size:
        flg |= 0x08
    if content_checksum:
        flg |= 0x04
    bd = block_max_id << 4
    desc = bytes([flg, bd])
    if content_size:
        desc += struct.pack("<Q", len(data))
    hc = (xxh32(desc) >> 8) & 0xFF
    out = bytearray(struct.pack("<I", 0x184D2204) + desc + bytes([hc]))
    i = 0
    while i < len(data):
        c = data[i:i + chunk]
        i += len(c)
        use_stored = stored if rng is None else (rng.random() < 0.5 if stored == "mix" else stored)
        if not use_stored and len(c) + len(c) // 255 + 16 > maxsz:
            use_stored = True   # a "compressed" block may not exceed the frame's maximum block size
        if use_stored:
            out += struct.pack("<I", len(c) | 0x80000000) + c
            blk = c
        else:
            blk = _lz4_block_literals(c)
            out += struct.pack("<I", len(blk)) + blk
        if block_checksum:
            out += struct.pack("<I", xxh32(blk))
    out += struct.pack("<I", 0)
    if content_checksum:
        out += struct.pack("<I", xxh32(data))
    return bytes(out)


def to_lz4_legacy(data, chunk=None):
    """LZ4 *legacy* frame (what `lz4 -l` writes; magic 0x184C2102): a sequence of (u32 compressed size, compressed block),
    each block holding at most 8 MiB of content, ending where the file ends. Blocks are literal-only compressed blocks."""
    chunk = min(chunk or (4 << 20), 4 << 20)      # (a literal-only block of a full 8 MiB would exceed the size a legacy block may have)
    out = bytearray(struct.pack("<I", 0x184C2102))
    i = 0
    while i < len(data):
        c = data[i:i + chunk]
        i += len(c)
        blk = _lz4_block_literals(c)
        out += struct.pack("<I", len(blk)) + blk
    return bytes(out)


def to_tar(members, fmt="ustar"):
    """members: list of (name, data, mtime). Returns tar bytes.
    data may also be ("dir",), ("symlink", target) or ("hardlink", target): entries that are not regular files, as
    `tar cf logs.tar logs/` writes them (a directory entry before its files, links among them)."""
    f = {"ustar": tarfile.USTAR_FORMAT, "gnu": tarfile.GNU_FORMAT, "pax": tarfile.PAX_FORMAT}[fmt]
    buf = io.BytesIO()
    with tarfile.open(fileobj=buf, mode="w", format=f) as t:
        for (name, data, mtime) in members:
            if isinstance(data, tuple):
                ti = tarfile.TarInfo(name)
                ti.mtime = int(mtime or 0)
                ti.uname, ti.gname = "u", "g"
                if data[0] == "dir":
                    ti.type, ti.mode = tarfile.DIRTYPE, 0o755
                elif data[0] == "symlink":
                    ti.type, ti.linkname, ti.mode = tarfile.SYMTYPE, data[1], 0o777
                else:
                    ti.type, ti.linkname, ti.mode = tarfile.LNKTYPE, data[1], 0o644
                t.addfile(ti)
                continue
            ti = tarfile.TarInfo(name)
            ti.size = len(data)
            ti.mtime = int(mtime or 0)
            ti.mode = 0o644
            ti.uname = "u"
            ti.gname = "g"
            t.addfile(ti, io.BytesIO(data))
    return buf.getvalue()


def member_path(rng, base):
    """a path for an archive member: short, longer than the 100-byte name field of a tar header (GNU long-name entry,
    pax `path=` record, ustar prefix split), or non-ASCII"""
    style = rng.choice(("short", "short", "long", "non_ascii", "dir"))
    if style == "long":
        return "logs-" + "d" * 55 + "/" + "host-" + "e" * 60 + "/" + base
    if style == "non_ascii":
        return "dir-\u00e9-\u65e5\u672c/" + base
    if style == "dir":
        return "var/log/" + base
    return base


def random_container(rng, kind, data, mtime=0, name="x.log"):
    """Encode `data` in container `kind` with seed-chosen codec parameters. Returns (bytes, descr)."""
    if kind == "plain":
        return data, {"kind": "plain"}
    if kind == "gz":
        lvl = rng.choice((0, 1, 6, 9))
        style = rng.randrange(5)
        if style == 4:
            return (to_gz(data, level=lvl, mtime=mtime, name=name if rng.random() < 0.5 else None, hcrc=True),
                    {"kind": "gz", "level": lvl, "hdr": "hcrc"})
        if style == 0:
            return to_gz(data, level=lvl, mtime=mtime), {"kind": "gz", "level": lvl, "hdr": "plain"}
        if style == 1:
            return to_gz(data, level=lvl, mtime=mtime, name=name), {"kind": "gz", "level": lvl, "hdr": "name"}
        if style == 2:
            return (to_gz(data, level=lvl, mtime=mtime, name=name, extra=b"AB\x02\x00xy"),
                    {"kind": "gz", "level": lvl, "hdr": "extra+name"})
        return (to_gz(data, level=lvl, mtime=mtime, comment=b"made by sim"),
                {"kind": "gz", "level": lvl, "hdr": "comment"})
    if kind == "bz2":
        lvl = rng.choice((1, 1, 2, 9))
        return to_bz2(data, lvl), {"kind": "bz2", "level": lvl}
    if kind == "xz":
        preset = rng.choice((0, 3, 6))
        chk = rng.choice((lzma.CHECK_CRC32, lzma.CHECK_CRC64, lzma.CHECK_NONE))
        if len(data) > 200 and len(data) < 3_000_000 and rng.random() < 0.35:
            chunk = rng.choice((100, 1000, 4096, 65536, max(1, len(data) // 3)))
            if len(data) // chunk <= 400:
                return to_xz_multiblock(data, chunk, preset, chk), {"kind": "xz", "preset": preset, "check": chk, "block_bytes": chunk}
        return to_xz(data, preset, chk), {"kind": "xz", "preset": preset, "check": chk}
    if kind == "lz4" and data and rng.random() < 0.12:
        chunk = rng.choice((None, 65536, 1000, 4 << 20))
        return to_lz4_legacy(data, chunk), {"kind": "lz4", "frame": "legacy", "chunk": chunk}
    if kind == "lz4":
        bid = rng.choice((4, 5, 6, 7))
        chunk = rng.choice((None, None, 64, 100, 1000, 4096, 65536, 70000))
        stored = rng.choice((True, False, "mix"))
        cc = rng.random() < 0.5
        bc = rng.random() < 0.3
        cs = rng.random() < 0.3
        return (to_lz4(data, rng, bid, chunk, stored, cc, bc, cs),
                {"kind": "lz4", "block_max_id": bid, "chunk": chunk, "stored": stored,
                 "content_checksum": cc, "block_checksum": bc, "content_size": cs})
    raise ValueError(kind)


def mtime_around(rng, lo_s, hi_s):
    """a modification time (seconds) that owes nothing to the content: 1970, well before / just before / inside / just
    after / long after the span [lo_s, hi_s] of what the file holds, 2090. For sources whose messages carry their own full
    dates the modification time (of the file, in a gz header, of a tar member) must not influence what is printed."""
    r = rng.randrange(7)
    if r == 0:
        return 86400 + rng.randrange(1000)
    if r == 1:
        return max(1, lo_s - 400 * 86400)
    if r == 2:
        return max(1, lo_s - rng.choice((1, 60, 3600)))
    if r == 3:
        return max(1, rng.randint(lo_s, max(lo_s, hi_s)))
    if r == 4:
        return hi_s + rng.choice((0, 1, 3600))
    if r == 5:
        return hi_s + 400 * 86400
    return 3786912000 + rng.randrange(1000)


SUFFIX = {"plain": "", "gz": ".gz", "bz2": ".bz2", "xz": ".xz", "lz4": ".lz4"}
