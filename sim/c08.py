"""C08 -- accounting-record files: every record once, in time order.

Generated: records for the documented platform layouts (Linux x86 / arm64 utmpx, lastlog, acct_v3;
NetBSD 32/64 utmpx, utmp, lastlog, acct; OpenBSD utmp, lastlog), laid out from the documented C
structs on top of a realistic template record, with per-record marker strings; record counts
1..60; time values increasing / shuffled / duplicated / seconds-only; null records interleaved;
every container; block sizes around the record size; optional datetime window.

Oracle (model): the non-null records inside the window, stable-sorted by embedded time, one line
each, each line carrying that record's own marker strings and time value and nobody else's.
"""
import re

import core
import engine
import layouts
import merge
import mergecheck
import world
import c03
from engine import Violation, CaseResult

PROP = "C08"
NS = 1_000_000_000
MARK = re.compile(rb"'([tuhc])(\d{3})[^']*'")


def gen_records(rng, name, n):
    size, so, ss, uo, us, fields, *_ = layouts.LAYOUTS[name]
    pattern = rng.choice(("increasing", "increasing", "shuffled", "duplicated", "seconds_only", "all_equal", "same_second_usec_shuffled"))
    base = rng.randint(1_500_000_000, 1_720_000_000)
    times = []
    t = base
    for i in range(n):
        t += rng.choice((0, 1, 1, 60, 3600, 86400)) if pattern in ("duplicated",) else rng.choice((1, 2, 60, 3600, 86400))
        if pattern == "all_equal":
            t = base
        usec = 0 if (uo is None or pattern in ("seconds_only", "all_equal")) else rng.choice((0, 1, 999999, rng.randrange(1000000)))
        if pattern == "duplicated" and times and rng.random() < 0.4:
            times.append(times[-1])
            continue
        times.append((t, usec))
    if pattern == "same_second_usec_shuffled":
        # several records inside the same (often the earliest) second, told apart by microseconds only, stored out of order
        k = rng.randint(2, max(2, min(n, 6)))
        grp = [(base, u) for u in rng.sample(range(0, 1000000, 1000), k)] if uo is not None else [(base, 0)] * k
        times = grp + times[k:] if rng.random() < 0.7 else times[:max(0, n - k)] + [(times[-1][0] + 5, u) for (_, u) in grp]
        times = times[:n] if len(times) >= n else times
        head = times[:k]
        rng.shuffle(head)
        times[:k] = head
        if rng.random() < 0.5:
            rng.shuffle(times)
    if pattern == "shuffled":
        rng.shuffle(times)
    recs = []
    raw = bytearray()
    if rng.random() < 0.15:
        # a zero-filled head, the normal shape of a lastlog file (the low uids never logged in)
        raw += layouts.null_record(name) * rng.choice((1, 4, 5, 6, 12, 40, 200))
    for i, (sec, usec) in enumerate(times):
        if rng.random() < 0.12:
            raw += layouts.null_record(name) * rng.choice((1, 1, 1, 2, 7))
        mk = {}
        for (f, off, sz) in fields:
            letter = {"ut_line": b"t", "ll_line": b"t", "ut_user": b"u", "ut_name": b"u", "ut_host": b"h", "ll_host": b"h", "ac_comm": b"c"}[f]
            v = letter + b"%03d" % i
            if letter == b"h" and sz > 12:
                v += b".ex"
            mk[f] = v
        rec = bytearray(layouts.make_record(name, sec, usec, mk))
        if i >= 6 and rng.random() < 0.3:
            # (not among the first records: those are what the layout is recognised by, and bytes after a NUL count against a
            # layout there)
            # a reused struct: a shorter string copied over a longer earlier one leaves bytes after the terminating NUL. They
            # belong to no value of this record and must not be shown
            (f_, off_, sz_) = rng.choice(fields)
            room = sz_ - len(mk[f_]) - 1
            if room >= 2:
                junk = bytes(rng.choice(b"qrsvwxyz/") for _ in range(rng.randint(1, min(room - 1, 12))))
                at = off_ + len(mk[f_]) + 1 + rng.randrange(0, room - len(junk))
                rec[at:at + len(junk)] = junk
        raw += rec
        recs.append({"idx": i, "sec": sec, "usec": usec, "markers": mk})
    if rng.random() < 0.2:
        raw += layouts.null_record(name)
    # Steer away from known finding F-C08c: when the file size is also a multiple of another layout's record
    # size (one that does not divide this layout's size) s4's scoring may pick that other layout. Pad with
    # null records (legal content) until the size is unambiguous in that sense.
    others = sorted(set(v[0] for k, v in layouts.LAYOUTS.items()) | {280, 428, 432})
    for _ in range(12):
        amb = [o for o in others if o != size and size % o != 0 and len(raw) % o == 0]
        if not amb:
            break
        raw += layouts.null_record(name)
    return bytes(raw), recs, pattern


def expected_order(recs, a, b):
    sel = []
    for r in recs:
        t = r["sec"] * NS + r["usec"] * 1000
        if (a is None or t >= a) and (b is None or t <= b):
            sel.append(r)
    return sorted(sel, key=lambda r: (r["sec"], r["usec"]))      # Python's sort is stable: file order on ties


FAMILY = {"utmpx": b"ut_", "utmp": b"ut_", "lastlog": b"ll_", "lastlogx": b"ll_", "acct": b"ac_", "acct_v3": b"ac_"}


def check_output(stdout, want, has_usec, layout=None):
    lines = [l.lstrip(b"\x00") for l in stdout.split(b"\n")]
    lines = [l for l in lines if l.strip(b"\x00")]
    if layout is not None:
        fam = FAMILY[layout.split("_", 2)[2]]
        for ln in lines:
            if not ln.startswith(fam):
                return "MISDETECTED: a %s file is printed with the fields of another record family: %r" % (layout, ln[:120])
    got_idx = []
    for ln in lines:
        ms = MARK.findall(ln)
        ids = set(int(d) for (_, d) in ms)
        if len(ids) != 1:
            return "a printed line carries the markers of %s records: %r" % (sorted(ids), ln[:160])
        got_idx.append(ids.pop())
    want_idx = [r["idx"] for r in want]
    if got_idx != want_idx:
        missing = [i for i in want_idx if i not in got_idx]
        dup = sorted(set(i for i in got_idx if got_idx.count(i) > 1))
        return "records printed %s; expected (stable time order) %s; missing=%s repeated=%s" % (got_idx, want_idx, missing[:10], dup[:10])
    for ln, r in zip(lines, want):
        if layout is not None:
            exp = expected_line(layout, r)
            if exp is not None and ln != exp:
                return "line of record %d is not the record's own field values: printed %r, expected %r" % (r["idx"], ln[:240], exp[:240])
        for f, v in r["markers"].items():
            if b"'" + v + b"'" not in ln and b" " + v + b"'" not in ln:       # (second form: the FreeBSD ut_line label typo)
                return "line of record %d lacks its own %s value %r: %r" % (r["idx"], f, v, ln[:200])
        if str(r["sec"]).encode() not in ln:
            return "line of record %d lacks its own time value %d: %r" % (r["idx"], r["sec"], ln[:200])
        if has_usec and r["usec"] and (b"%d" % r["usec"]) not in ln and (b"%06d" % r["usec"]) not in ln:
            return "line of record %d lacks its own microseconds %d: %r" % (r["idx"], r["usec"], ln[:200])
    return None


def nul_check(stdout):
    """'nothing else': bytes that belong to no record. Known shape (F-C08b): exactly one NUL after every newline."""
    n0 = stdout.count(b"\x00")
    if n0 == 0:
        return []
    if n0 == stdout.count(b"\n") and stdout.count(b"\n\x00") == n0:
        return [("nul_byte_after_each_record", "%d records printed, each followed by one 0x00 byte after its newline" % n0)]
    return [("stray_nul_bytes", "%d NUL bytes in %d lines, not in the one-after-each-newline shape" % (n0, stdout.count(b"\n")))]


SIMPLE = {   # layouts whose whole line is determined by the marker strings and the time value (independent model)
    "lastlog": lambda r: b"ll_time %d ll_line '%s' ll_host '%s'" % (r["sec"], r["markers"]["ll_line"], r["markers"]["ll_host"]),
    "utmp": lambda r: b"ut_line '%s' ut_name '%s' ut_host '%s' ut_time %d" % (r["markers"]["ut_line"], r["markers"]["ut_name"], r["markers"]["ut_host"], r["sec"]),
}
_TEMPLATE_LINE = {}


def template_line(layout):
    """how the pristine template record of a richer layout (utmpx, acct) is printed, alone in a file: the other fields of
    every generated record equal the template's, so its line is the template's line with markers and time replaced.
    (Detects context-dependent rendering: stale buffer bytes, neighbours' values, ...; a consistent mis-rendering of a
    non-marker field is outside this model.)"""
    if layout in _TEMPLATE_LINE:
        return _TEMPLATE_LINE[layout]
    fname = layouts.LAYOUTS[layout][6]
    scn = core.Scenario([core.FileSpec(fname, layouts.template(layout), 1600000000)], ["--color", "never", "--tz-offset", "+00:00", fname], None, "UTC")
    fps, core.FINGERPRINTS = core.FINGERPRINTS, None     # a per-process cached auxiliary run: not part of any case's fingerprint
    try:
        res = core.execute(scn, core.Plan(seed=1, policy="lowest"))
    finally:
        core.FINGERPRINTS = fps
    ln = res.stdout.split(b"\n")[0].lstrip(b"\x00")
    _TEMPLATE_LINE[layout] = ln if ln.startswith((b"ut_", b"ac_")) else None
    return _TEMPLATE_LINE[layout]


def expected_line(layout, r):
    fam = layout.split("_", 2)[2]
    if fam in SIMPLE:
        return SIMPLE[fam](r)
    t = template_line(layout)
    if t is None:
        return None
    out = t
    for f, v in r["markers"].items():
        # (the FreeBSD utmpx rendering opens ut_line's value without a quote -- "ut_line t001'" --: a typo in the label
        # string, not a wrong field value; the opening quote is therefore taken from the template line as it is)
        out, k = re.subn(re.escape(f.encode()) + rb" '[^']*'", lambda m, f=f, v=v: f.encode() + b" '" + v + b"'", out, count=1)
        if not k:
            out = re.sub(re.escape(f.encode()) + rb" [^' ]*'", lambda m, f=f, v=v: f.encode() + b" " + v + b"'", out, count=1)
    if fam.startswith("utmpx"):
        out = re.sub(rb"(ut_tv|ut_xtime) \S+", lambda m: m.group(1) + b" %d.%d" % (r["sec"], r["usec"]), out, count=1)
    else:
        out = re.sub(rb"ac_btime \d+", b"ac_btime %d" % r["sec"], out, count=1)
    return out


KNOWN = {}
FORCE_WINDOW = False      # set by C03 when it runs this check for its own purpose (every case gets a window)


def known_for(cls, pattern):
    if not KNOWN:
        for kf in engine.load_known(PROP):
            if kf["status"] == "open":
                for c in kf.get("signature", {}).get("classes", []):
                    KNOWN[c] = kf
        KNOWN.setdefault("_", None)
    kf = KNOWN.get(cls)
    if kf and (not kf["signature"].get("patterns") or pattern in kf["signature"]["patterns"]):
        return kf["id"]
    return None


# numeric fields that every rendering of the layout shows as a plain number (offset, size); type / flag / version fields are
# left out (they take part in the layout's plausibility score), so are floats, and 2-byte values stay below 0x2000 (comp_t
# counters are 13-bit mantissas with an exponent: above that two bit patterns can denote one number)
NUMERIC = {
    "linux_x86_utmpx": ((4, 4), (332, 2), (334, 2), (336, 4), (348, 4), (352, 4), (356, 4), (360, 4)),
    "linux_arm64_utmpx": ((4, 4), (332, 4), (336, 8), (360, 4), (364, 4), (368, 4), (372, 4)),
    "linux_x86_acct_v3": ((2, 2), (4, 4), (8, 4), (12, 4), (16, 4), (20, 4), (32, 2), (34, 2), (36, 2), (38, 2), (40, 2), (42, 2), (44, 2), (46, 2)),
    "linux_x86_acct": ((2, 2), (4, 2), (6, 2), (12, 2), (14, 2), (16, 2), (18, 2), (20, 2), (22, 2), (24, 2), (26, 2)),
    "netbsd_x8632_acct": ((16, 2), (18, 2), (20, 2), (32, 4), (36, 4), (40, 2), (42, 2), (44, 4)),
    "netbsd_x8632_utmpx": ((324, 2), (328, 4), (332, 2), (334, 2)),
    "netbsd_x8664_utmpx": ((324, 2), (328, 4), (332, 2), (334, 2)),
}


def run_twin_case(seed, i, tier):
    """'each printed line shows that record's own field values': the same file twice, the second time with ONE numeric field
    of ONE record holding another value. Every other record's line must be the same in both runs, and that record's line must
    not be -- a value that does not reach the line (or reaches a neighbour's) is a field the line does not show."""
    rng = core.rng_for(seed, PROP, i)
    name = rng.choice(sorted(NUMERIC))
    size, so, ss, uo, us, fields, fname, *_ = layouts.LAYOUTS[name]
    n = rng.choice((1, 2, 3, 5, 8))
    raw, recs, pattern = gen_records(rng, name, n)
    j = rng.randrange(len(recs))
    # locate record j in the file (null records may lie between)
    offs = [o for o in range(0, len(raw), size) if any(raw[o:o + size])]
    assert len(offs) == len(recs), (len(offs), len(recs))
    off, sz = rng.choice(NUMERIC[name])
    old = raw[offs[j] + off:offs[j] + off + sz]
    while True:
        if sz == 2:
            v = rng.choice((1, 2, 255, 256, 0x1FFF, rng.randrange(1, 0x2000)))
        else:
            v = rng.choice((1, 2, 255, 256, 65536, 0x01000000, 0x7FFFFFFF, rng.randrange(1, 2**31)))
        new = v.to_bytes(sz, "little")
        if new != old:
            break
    raw2 = raw[:offs[j] + off] + new + raw[offs[j] + off + sz:]
    opts = ["--color", "never", "--tz-offset", "+00:00"] + (["--blocksz", str(max(64, rng.choice((size, 2 * size, 1000))))] if rng.random() < 0.4 else [])
    prng = core.rng_for(seed, PROP, i, "plan")
    plan = core.random_plan(prng, 1, budget=3_000_000)
    plan.hashseed = rng.getrandbits(32)
    cr = CaseResult()
    outs = []
    scn2 = None
    for data in (raw, raw2):
        scn = core.Scenario([core.FileSpec(fname, data, 1600000000)], opts + [fname], None, "UTC")
        scn2 = scn
        res = core.execute(scn, plan)
        cr.runs += 1
        cr.steps += res.trace.steps
        cr.steps_max = max(cr.steps_max, res.trace.steps)
        cr.decision_hashes.append(res.trace.decision_hash())
        cr.arrival_hashes.append(res.trace.arrival_hash())
        outs.append(res)
    cr.policies[plan.policy.split(":")[0]] += 1
    cr.probes["twin_file_one_numeric_field_changed"] += 1
    cr.probes["layout_" + name] += 1
    cr.nontrivial_keys.append(core.derive(0, scn2.digest()))
    vs = mergecheck.evaluate(outs[0], None, check_protocol=False) or mergecheck.evaluate(outs[1], None, check_protocol=False)
    if not vs:
        d = twin_check(outs[0].stdout, outs[1].stdout, recs, j, off, sz, old, new)
        if d:
            vs.append(("changed_field_value_not_shown_by_its_own_line", d))
    for (cls, detail) in vs:
        rp = {"kind": "twin", "scenario": core.Scenario([core.FileSpec(fname, raw, 1600000000)], opts + [fname], None, "UTC").to_json(),
              "scenario2": scn2.to_json(), "plan": plan.as_replay(outs[1].trace).to_json(), "class": cls, "layout": name,
              "recs": [{"idx": r["idx"], "sec": r["sec"], "usec": r["usec"], "markers": {k: v_.decode() for k, v_ in r["markers"].items()}} for r in recs],
              "j": j, "off": off, "sz": sz, "old": old.hex(), "new": new.hex()}
        cr.violations.append(Violation(cls, "layout=%s n=%d record %d field at +%d (%d bytes) %s -> %s: %s" % (name, len(recs), j, off, sz, old.hex(), new.hex(), detail), rp))
    cr.sample = {"argv": opts + [fname], "layout": name, "records": len(recs), "changed": {"record": j, "offset": off, "size": sz}}
    return cr


def twin_check(out1, out2, recs, j, off, sz, old, new):
    def lines(b):
        return [l.lstrip(b"\x00") for l in b.split(b"\n") if l.strip(b"\x00")]
    l1, l2 = lines(out1), lines(out2)
    order = [r["idx"] for r in expected_order(recs, None, None)]
    if len(l1) != len(order) or len(l2) != len(order):
        return "printed %d and %d lines for %d records" % (len(l1), len(l2), len(order))
    pos = order.index(recs[j]["idx"])
    for k in range(len(order)):
        if k != pos and l1[k] != l2[k]:
            return "the line of record %d changed although only record %d was altered: %r -> %r" % (order[k], recs[j]["idx"], l1[k][:200], l2[k][:200])
    if l1[pos] == l2[pos]:
        return "record %d: the %d bytes at +%d went from %s to %s and its printed line stayed the same: %r" % (recs[j]["idx"], sz, off, old.hex(), new.hex(), l1[pos][:300])
    return None


def run_case(seed, i, tier):
    if i % 6 == 4 and not FORCE_WINDOW:
        return run_twin_case(seed, i, tier)
    rng = core.rng_for(seed, PROP, i)
    name = rng.choice(sorted(layouts.LAYOUTS))
    size, so, ss, uo, us, fields, fname, *_ = layouts.LAYOUTS[name]
    n = rng.choice((1, 2, 3, 5, 8, 20, 60))
    raw, recs, pattern = gen_records(rng, name, n)
    cont = rng.choice(("plain", "plain", "plain", "gz", "bz2", "xz", "lz4", "tar"))
    rts = [r["sec"] for r in recs] or [1_600_000_000]
    mt_file, mt_in = world.mtime_around(rng, min(rts), max(rts)), world.mtime_around(rng, min(rts), max(rts))
    if cont == "tar":
        stored = world.to_tar([(fname, raw, mt_in)], rng.choice(("ustar", "gnu", "pax")))
        path = "acc.tar"
    else:
        stored, _ = world.random_container(rng, cont, raw, mt_in, fname)
        path = fname + world.SUFFIX[cont]
    opts = ["--color", "never", "--tz-offset", "+00:00"]
    if rng.random() < 0.6:
        bsz = rng.choice((64, size - 1, size, size + 1, 2 * size, 100, 1000, 4096))
        opts += ["--blocksz", str(max(64, bsz))]
    a = b = None
    if rng.random() < 0.35 or FORCE_WINDOW:
        ts = sorted(set(r["sec"] * NS + r["usec"] * 1000 for r in recs))
        a = c03.place(rng, ts) if rng.random() < 0.7 else None
        b = c03.place(rng, ts) if rng.random() < 0.7 else None
        if a is not None and b is not None and a > b:
            a, b = b, a
        if a is not None:
            opts += ["-a", c03.fmt_bound(rng, a)]
        if b is not None:
            opts += ["-b", c03.fmt_bound(rng, b)]
    want = expected_order(recs, a, b)
    files = [core.FileSpec(path, stored, mt_file)]
    argv = opts + [path]
    # optionally next to a text source (merge of different kinds; the text lines are ignored by the marker check)
    scn = core.Scenario(files, argv, None, "UTC")
    prng = core.rng_for(seed, PROP, i, "plan")
    plan = core.random_plan(prng, 1, budget=3_000_000)
    plan.hashseed = rng.getrandbits(32)
    res = core.execute(scn, plan)
    tr = res.trace
    cr = CaseResult()
    cr.runs = 1
    cr.steps = tr.steps
    cr.steps_max = tr.steps
    cr.policies[plan.policy.split(":")[0]] += 1
    cr.probes["layout_" + name] += 1
    cr.probes["times_" + pattern] += 1
    cr.probes["container_" + cont] += 1
    if a is not None or b is not None:
        cr.probes["with_window"] += 1
    cr.decision_hashes.append(tr.decision_hash())
    cr.arrival_hashes.append(tr.arrival_hash())
    cr.nontrivial_keys.append(core.derive(0, scn.digest()))
    vs = mergecheck.evaluate(res, None, check_protocol=False)
    if not vs and res.rc != 0:
        # a well-formed file, whatever the window selects of it (nothing, too), is not an error
        vs.append(("exit_status_nonzero_for_a_valid_file", "exit status %s; stderr tail %r" % (res.rc, res.stderr[-200:])))
    if not vs:
        d = check_output(res.stdout, want, uo is not None, name)
        if d:
            dup_times = len(set((r["sec"], r["usec"]) for r in want)) < len(want)
            cls = "layout_misdetected" if d.startswith("MISDETECTED") else (
                "records_with_equal_times_differ" if dup_times else "records_differ")
            vs.append((cls, d))
        if not d or not d.startswith("MISDETECTED"):
            vs += nul_check(res.stdout)
    for (cls, detail) in vs:
        rp = {"scenario": scn.to_json(), "plan": plan.as_replay(tr).to_json(), "class": cls, "layout": name,
              "recs": [{"idx": r["idx"], "sec": r["sec"], "usec": r["usec"], "markers": {k: v.decode() for k, v in r["markers"].items()}} for r in recs],
              "a": a, "b": b, "pattern": pattern}
        cr.violations.append(Violation(cls, "layout=%s n=%d times=%s container=%s opts=%s: %s" % (name, n, pattern, cont, opts, detail), rp,
                                       known=known_for(cls, pattern)))
    cr.sample = {"argv": argv, "layout": name, "records": n, "times": pattern, "container": cont}
    return cr


def classes_of(rp):
    if rp.get("kind") == "twin":
        plan = core.Plan.from_json(rp["plan"])
        r1 = core.execute(core.Scenario.from_json(rp["scenario"]), plan)
        r2 = core.execute(core.Scenario.from_json(rp["scenario2"]), plan)
        cl = set(c for (c, _) in (mergecheck.evaluate(r1, None, check_protocol=False) or mergecheck.evaluate(r2, None, check_protocol=False)))
        if not cl:
            recs = [{"idx": r["idx"], "sec": r["sec"], "usec": r["usec"], "markers": {}} for r in rp["recs"]]
            if twin_check(r1.stdout, r2.stdout, recs, rp["j"], rp["off"], rp["sz"], bytes.fromhex(rp["old"]), bytes.fromhex(rp["new"])):
                cl.add("changed_field_value_not_shown_by_its_own_line")
        return cl
    scn = core.Scenario.from_json(rp["scenario"])
    plan = core.Plan.from_json(rp["plan"])
    res = core.execute(scn, plan)
    cl = set(c for (c, _) in mergecheck.evaluate(res, None, check_protocol=False))
    if cl:
        return cl
    recs = [{"idx": r["idx"], "sec": r["sec"], "usec": r["usec"], "markers": {k: v.encode() for k, v in r["markers"].items()}} for r in rp["recs"]]
    want = expected_order(recs, rp["a"], rp["b"])
    d = check_output(res.stdout, want, layouts.LAYOUTS[rp["layout"]][3] is not None, rp["layout"])
    if d:
        dup_times = len(set((r["sec"], r["usec"]) for r in want)) < len(want)
        cl.add("layout_misdetected" if d.startswith("MISDETECTED") else (
            "records_with_equal_times_differ" if dup_times else "records_differ"))
    if not d or not d.startswith("MISDETECTED"):
        for (c, _) in nul_check(res.stdout):
            cl.add(c)
    return cl


def replay(rp):
    cl = classes_of(rp)
    return (rp.get("class") in cl) if rp.get("class") else bool(cl)


RULE = ("one case = one accounting file of a documented layout (12 layouts) with 1..60 records built on a realistic "
        "template record with per-record marker strings; time values increasing / shuffled / duplicated / seconds-only / "
        "all equal; null records interleaved; plain / gz / bz2 / xz / lz4 / tar; block sizes around the record size; "
        "optional -a/-b window; non-trivial = every run; distinct = scenario digest")
ASSUMPTIONS = ["layouts transcribed from the C structs documented in src/data/fixedstruct.rs; FreeBSD utx files (variable-size "
               "records) and the 32-bit NetBSD lastlogx database are not generated",
               "the line format is not parsed beyond: the record's quoted marker strings and its decimal time value must be present"]


def main(tier):
    n = 2500 if tier == "quick" else 120000
    cap = 300 if tier == "quick" else 1500
    return engine.run_check(PROP, "c08", tier, n, cap, "exploration", RULE, ASSUMPTIONS)
