"""Regenerates /verif/MANIFEST.json from the table below (kept in one place so it stays valid)."""
import json
import os

VERIF = os.path.dirname(os.path.dirname(os.path.abspath(__file__)))

HOOK_COMMITS = [
    "74be2593 verif hooks (cfg s4_verif): s4.rs import swaps, simulated clock, init/exit, coordinator trace, handler unlink point",
    "6d93ed9e verif hooks (cfg s4_verif): filedecompressor RwLock swap and temp-file life-cycle points",
    "2eb39ddc verif hooks (cfg s4_verif): scheduling point before each physical block read",
]

TECH = "deterministic simulation with fault injection: real s4 binary under a seeded baton scheduler (s4_verif_rt), "

CLAIMED = {
    "C01": ("exploration", "3 C01", TECH + "K schedules per scenario, reference k-way merge model + trace invariant printed=min(pending)",
            "Seeded sampling of (sources x schedules); byte-exact comparison with an independent merge model and online "
            "argmin/pending-set invariants over the coordinator trace. Evidence, not proof."),
    "C06": ("exploration", "3 C06", TECH + "K schedules per scenario must give identical stdout/exit status; deadlock and step-budget detection; protocol invariants over the trace; simulated deadlines for timed channel operations; short writes on stdout in one run of four",
            "Seeded search over interleavings of the real coordinator/worker code with the channel, locks and thread "
            "scheduling owned by the simulator; reports distinct interleavings reached. Sampling, not enumeration."),
}

CLAIMED.update({
    "C18": ("fault_enumeration", "3 C18", TECH + "SIGINT delivered at every (thorough) / a stratified sample (quick) of scheduler steps of a base run, plus process exit as a crash point, with SIGINT's disposition as a seam (sigaction / signal for SIGINT recorded by the preload shim: a handler that restores SIG_DFL makes the next signal fatal), plus write-level faults from the preload shim (TMPDIR full after N bytes = ENOSPC, stdout reader gone after N bytes = EPIPE, reads failing after N bytes = EIO, alone and with a SIGINT); oracle = private TMPDIR empty after exit, exit within a step bound after the last signal, no crash/deadlock, after EPIPE stdout is a prefix of the fault-free output",
            "Crash-point enumeration over the simulated signal thread: the real handler closure, the real temp-file code and "
            "the real coordinator run under the baton scheduler; leaks are classified by life-cycle position."),
    "C17": ("exploration", "3 C17", TECH + "same log generator at n, 2n, 4n blocks under adversarial schedules (starved coordinator / worker); --summary high-water marks must be flat and under a computed bound",
            "Whether a printed message can be released is decided by the worker/coordinator interleaving, which the simulator "
            "owns; metamorphic over size. Sampling."),
    "C07": ("fault_enumeration", "3 C07", TECH + "stored-data faults on the simulated disk (every truncation point and single-byte corruption of small valid files of each kind, random bytes, mismatching names, structured tails after a valid stream, damaged content inside well-formed containers, header/trailer/index fields set to extreme values with the format's checksum recomputed; 3 GiB address-space limit) alone and beside valid sources; oracle = exit status in {0,1}, no panic/deadlock/livelock, co-sources intact",
            "Thorough tier enumerates the complete truncation/corruption space of small valid files of each kind and "
            "container; quick tier samples it. No-crash/no-hang is decided by the scheduler (deadlock, step budget) and exit status."),
})

CLAIMED.update({
    "C02": ("exploration", "3 C02", TECH + "exactly-once / byte-exact reassembly oracle (model + separator-marker split) over simulated end-to-end runs with block-boundary-targeted content (eight stamp notations, messages of up to thousands of lines), a growing-file case (another process appends to the log at a scheduler step: the output must be the file as it was when opened), under seeded schedules",
            "History oracle over the worker->channel->printer path with the reader concurrently dropping data; block size, "
            "containers and schedules sampled. The schedule is a nuisance dimension here (C06 says it must not matter)."),
    "C03": ("exploration", "3 C03", TECH + "reference filter model A<=t<=B on instants known by construction; bounds placed on/around message instants; binary-search and linear-search readers; under seeded schedules",
            "Model oracle over simulated end-to-end runs; sampling of windows, contents, block sizes."),
    "C05": ("exploration", "3 C05", TECH + "metamorphic: plain form vs gz/bz2/xz/lz4/tar forms with seed-chosen codec parameters (decoder hand-back chunking vs block size) must print identical bytes",
            "Stream-chunking property decided by metamorphic comparison between simulated runs; text, accounting, evtx and journal inputs."),
    "C12": ("exploration", "3 C12", TECH + "knob invariance: stdout at ~8..27 block sizes (fixed set + content-derived sizes) must equal stdout at the default block size",
            "Tuning-knob randomisation of the read block size over boundary-targeted content; known finding F-C12a is steered around and shown by a pinned replay."),
})

CLAIMED.update({
    "C13": ("exploration", "3 C13", TECH + "reference decoration model (file field, datetime field via an independent strftime, separators, display-width alignment) predicts stdout byte for byte; colour runs compared after deleting SGR sequences; metamorphic strip oracle for utmp/evtx/journal; simulated local zone (TZ) and program-start clock",
            "Model oracle over simulated runs with option tuples, zones and names sampled."),
    "C19": ("exploration", "3 C19", TECH + "conservation over the print history: run with and without --summary under the same plan; totals == len(stdout) and model counts; per-file sums + separators + supplied newlines == total; resolved filter and first/last datetimes == model",
            "Conservation / accounting oracle over the coordinator's print history with decoration options varied; known finding F-C19a attributed by signature."),
})

CLAIMED.update({
    "C14": ("exploration", "3 C14", TECH + "simulated program-start clock (plan now=; later by stdin_delay once a slow path list on standard input has been read) and --tz-offset; independent resolver of the documented filter grammar vs the --summary filter lines, exit status, and the messages selected from a probe log placed 1 ms around the resolved bounds",
            "The relative forms are only decidable with a controlled clock; absolute forms ride along. Sampling of the grammar and near-misses."),
    "C11": ("exploration", "3 C11", TECH + "simulated world timeline sets message dates, file mtimes and gz/tar header mtimes; reference year-inference model (true dates) vs -u -d output, windows and cross-file merge",
            "Clock/mtime-controlled model oracle over simulated runs; containers, zones, block sizes sampled."),
    "C15": ("exploration", "3 C15", TECH + "metamorphic over argument forms (directory as given vs the model's explicit sorted expansion vs respelled paths vs stdin list vs splits) plus an absolute oracle: the explicit list against a model of the merge (every named file attempted, an archive one source per member); trees created in seed-chosen order, tie-everywhere contents, 1..6 directories named, walk pool of 1 / 2 / all threads (RAYON_NUM_THREADS)",
            "Metamorphic comparison between simulated runs and a merge model; jwalk's rayon pool runs real inside a step (stated), its size is a drawn knob."),
})

CLAIMED.update({
    "C08": ("exploration", "3 C08", TECH + "generated accounting files of 15 documented layouts (template record + marker strings, time patterns incl. duplicates, null records, containers, block sizes, windows, free modification times); reference model = stable sort of non-null records by embedded time; each printed line must be its own record's whole-line rendering; twin-file case: one numeric field of one record changed must change that record's line and no other",
            "Model oracle over simulated end-to-end runs; layouts x time patterns x containers sampled; known findings F-C08b / F-C08c attributed by signature."),
})

CLAIMED.update({
    "C09": ("exploration", "3 C09", TECH + "independent reader `journalctl --file -o export` (binary-safe export parsed): entry order, receive times and field sets vs s4's ten renderings split on a separator marker; windows on exact microsecond receive times; all containers",
            "Oracle = independent reader over generated journals (sim/journalgen.py, incl. XZ-compressed values; used only when journalctl reads back exactly what was written) and the shipped ones; renderings, windows, zones, containers sampled."),
    "C10": ("exploration", "3 C10", TECH + "independent dump with the evtx crate (/verif/aux) gives (enumeration index, record id, creation time); expected = stable time sort + inclusive window; record ids parsed from s4's separator-split output; bounds placed inside the out-of-order region",
            "Oracle = independent dump over the shipped file and re-stamped copies of it (sim/evtxmut.py: any multiset of creation times, chunk order, stale chunk checksums, small logs, one torn record); windows and containers sampled."),
})

NOT_APPLICABLE = {
    "C04": "pure function from (line bytes, pattern table, fallback zone) to an instant: no schedule, clock, fault or interleaving to simulate (DESIGN section 5)",
    "C16": "pure terminating recursion on a file-name string: no I/O, time or concurrency to simulate (DESIGN section 5)",
}

NOT_YET = {}


def main():
    props = [json.loads(l)["id"] for l in open(os.path.join(VERIF, "properties.jsonl"))]
    checks = []
    for pid in props:
        if pid in CLAIMED:
            cat, ref, tech, text = CLAIMED[pid]
            checks.append({
                "property_id": pid,
                "quick_cmd": "./check %s quick" % pid,
                "thorough_cmd": "./check %s thorough" % pid,
                "evidence_file": "/verif/evidence/%s.json" % pid,
                "replay_cmd_template": "./check replay {path}",
                "engine": "s4sim",
                "level_claimed": {"category": cat, "text": text, "design_ref": "DESIGN.md section " + ref},
                "level_note": "trusted base: s4_verif_rt shims model crossbeam-channel/RwLock/thread/ctrlc faithfully; "
                              "pre-emption only at intercepted operations; codecs, libsystemd, kernel FS and rayon pools run real and uncontrolled inside single steps",
                "technique": tech,
            })
    na = []
    for pid in props:
        if pid in CLAIMED:
            continue
        if pid in NOT_APPLICABLE:
            na.append({"property_id": pid, "reason": NOT_APPLICABLE[pid]})
        else:
            na.append({"property_id": pid, "reason": NOT_YET.get(pid, "check not built yet in this framework (planned, see DESIGN.md section 3); not claimed")})
    man = {
        "version": 1,
        "setup_cmd": "./check build",
        "hooks": {
            "guard": "--cfg s4_verif (rustc cfg flag; off by default)",
            "enable": "RUSTFLAGS='--cfg s4_verif' cargo build --offline --profile verif --manifest-path /verif/shadow/Cargo.toml "
                      "(shadow manifest generated by sim/build.py: same package, [lib]/[[bin]] paths into /repo/src, + path dependency /verif/rt)",
            "baseline_off_cmd": "cd /repo && cargo nextest run --workspace --no-fail-fast --tool-config-file pb:/w/lib/nextest.toml --profile pb --test-threads 8 --offline",
            "source_commits": HOOK_COMMITS,
            "add_only": True,
        },
        "engines": [
            {"name": "s4_verif_rt", "path": "/verif/rt", "serves_properties": sorted(CLAIMED),
             "kind_free_text": "runtime linked into s4 under cfg s4_verif: baton scheduler (seeded policies, replay), shims for crossbeam_channel / RwLock / thread / ctrlc, simulated clock, event trace"},
            {"name": "s4sim", "path": "/verif/sim", "serves_properties": sorted(CLAIMED),
             "kind_free_text": "python driver: world generators, reference models, oracles over stdout/exit/TMPDIR/trace, minimiser, replay, evidence"},
        ],
        "checks": checks,
        "not_applicable": na,
        "notes": "One integer (VERIF_SEED) derives scenario, options, schedule, fault plan, clock and hash seed. exit 2 = harness error, never a verdict.",
    }
    with open(os.path.join(VERIF, "MANIFEST.json"), "w") as fh:
        json.dump(man, fh, indent=1)
        fh.write("\n")


if __name__ == "__main__":
    main()
