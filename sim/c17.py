"""C17 -- memory held for a streamed text log does not grow with its size.

(Oracle revised after a false alarm in the thorough tier, see DESIGN 9.6: the marks are compared with a bound
computed from the content's own density -- the densest stretch of consecutive blocks plus the messages in flight --
instead of fixed slacks between sizes; a leak grows with the size and crosses any such bound.)


Whether the worker can release a message is a scheduling question: it removes the message from its
own index and then `Arc::try_unwrap`s it; if the coordinator still holds it (in the channel or as the
pending datum) the lines and blocks under it stay referenced. So the check runs the *same* generator
at sizes n, 2n, 4n blocks under adversarial schedules (starved coordinator, starved worker, random,
round-robin) and reads the `--summary` high-water marks.

Oracle: each of `blocks high`, `lines high`, `syslines high` is (a) flat in size:
mark(4n) <= mark(n) + slack and mark(2n) <= mark(n) + slack, and (b) under an absolute bound computed
from block size, longest message and the channel capacity (5), with explicit slack.
"""
import re

import core
import engine
import merge
import mergecheck
import tracecheck
import world
from engine import Violation, CaseResult

PROP = "C17"
CAP = 5


def parse_marks(stderr, path):
    """-> dict(blocks_high, lines_high, syslines_high, blocks, drop_sysline_err, ...) for `path`"""
    txt = stderr.decode("utf-8", "replace")
    m = re.search(r"^File: %s\n(.*?)(?=^File: |^Program Summary:)" % re.escape(path), txt, re.S | re.M)
    if not m:
        return None
    sec = m.group(1)
    out = {}
    for key, pat in (("blocks_high", r"blocks high\s*:\s*(\d+)"), ("lines_high", r"lines high\s*:\s*(\d+)"),
                     ("syslines_high", r"syslines high\s*:\s*(\d+)"), ("blocks", r"^\s*blocks\s*:\s*(\d+)"),
                     ("syslines", r"^\s*syslines\s*:\s*(\d+)"),
                     ("drop_sysline_err", r"drop_sysline\(\)\s*:\s*Ok\s*\d+,\s*Err\s*(\d+)"),
                     ("drop_block_err", r"drop_block\(\)\s*:\s*Ok\s*\d+,\s*Err\s*(\d+)")):
        mm = re.search(pat, sec, re.M)
        if mm:
            out[key] = int(mm.group(1))
    return out


def gen_family(rng):
    bsz = rng.choice((64, 100, 128, 256, 512, 1024))
    container = rng.choice(("plain", "plain", "gz", "bz2", "lz4"))
    style = rng.choice(("short", "short", "mixed", "multiblock", "tiling"))
    n0 = rng.choice((40, 60, 100))
    return bsz, container, style, n0


def gen_fmt(seed, i):
    return STAMP_FORMATS[core.derive(seed, "C17|fmt|%d" % i) % len(STAMP_FORMATS)]


MONTHS = ("Jan", "Feb", "Mar", "Apr", "May", "Jun", "Jul", "Aug", "Sep", "Oct", "Nov", "Dec")
STAMP_FORMATS = ("slash", "slash", "iso", "yy")


def stamp_fmt(t, fmt):
    """the same instant in three of the notations s4 knows: the generator's usual one, ISO 8601 with zone, and the
    two-digit-year form `[01-Jan-00 00:00:01]` (a year is present, so nothing has to be read ahead to find one)"""
    if fmt == "slash":
        return world.stamp(t, 0, 1, 3)
    y, mo, d, h, mi, sec, ns = world.civil(t, 0)
    if fmt == "iso":
        return b"%04d-%02d-%02dT%02d:%02d:%02d.%03d+00:00" % (y, mo, d, h, mi, sec, ns // 1_000_000)
    return b"[%02d-%s-%02d %02d:%02d:%02d]" % (d, MONTHS[mo - 1].encode(), y % 100, h, mi, sec)


def gen_log(rng, bsz, style, nblocks, fmt="slash", banner=False):
    """text log of about nblocks blocks with the style's line-length distribution; banner: the first message is written in
    another notation than the rest (a start-up line of another component), so block zero matches more than one pattern"""
    target = nblocks * bsz
    p = world.TextLogParams(notation=1, n_msgs=1, src_letter=b"L")
    out = bytearray()
    msgs = []
    t = 946684800_000_000_000
    i = 0
    maxmsg = 0
    while len(out) < target:
        t += 1_000_000_000
        head = stamp_fmt(t, fmt if not (banner and i == 0) else ("iso" if fmt != "iso" else "slash")) + b" L" + world.tag26(i, 4)
        if style == "short" or (i == 0 and style != "tiling"):
            # (the first line always fits block zero: known finding F-C12a is not this property's business)
            blen = rng.randint(0, 10)
            ncont = 0
        elif style == "mixed":
            blen = rng.choice((5, 20, 60, bsz, 2 * bsz))
            ncont = rng.choice((0, 0, 1, 2))
        elif style == "multiblock":
            blen = rng.randint(bsz, 4 * bsz)
            ncont = rng.choice((0, 1))
        else:  # tiling: every message ends exactly at a block boundary
            need = len(head) + 2
            k = (need + bsz - 1) // bsz
            blen = k * bsz - need
            ncont = 0
        m = head + b" " + world._body(rng, blen, 0) + b"\n"
        for _ in range(ncont):
            m += b" c " + world._body(rng, rng.randint(0, 40), 0) + b"\n"
        if style == "tiling":
            assert (len(out) + len(m)) % bsz == 0
        out += m
        msgs.append(world.Msg(t, bytes(m), b""))
        maxmsg = max(maxmsg, len(m))
        i += 1
    return bytes(out), msgs, maxmsg


W_BLOCKS = 4      # a message is released when the reader is two blocks past it; plus the block being read and one of look-ahead
INFLIGHT = CAP + 4  # capacity + pending + the one being built + the previous one kept for the drop attempt


def density_bounds(msgs, bsz, nblocks, windowed):
    """Model bound for the three marks, computed from the actual content: what any reader that releases data two
    blocks behind itself must hold = the densest stretch of W_BLOCKS consecutive blocks, plus the messages in flight
    between worker and printer. Independent of the file size unless the content itself gets denser."""
    per_block_msgs = {}
    per_block_lines = {}
    off = 0
    span_max = 1
    lines_per_msg_max = 1
    for m in msgs:
        b0 = off // bsz
        b1 = (off + len(m.data) - 1) // bsz
        nl = m.data.count(b"\n") + (0 if m.data.endswith(b"\n") else 1)
        per_block_msgs[b0] = per_block_msgs.get(b0, 0) + 1
        per_block_lines[b0] = per_block_lines.get(b0, 0) + nl
        span_max = max(span_max, b1 - b0 + 1)
        lines_per_msg_max = max(lines_per_msg_max, nl)
        off += len(m.data)

    def dens(d):
        best = 0
        for b in d:
            best = max(best, sum(d.get(b + k, 0) for k in range(W_BLOCKS)))
        return best
    dm, dl = dens(per_block_msgs), dens(per_block_lines)
    out = {"syslines_high": dm + INFLIGHT + 6,
           "lines_high": dl + INFLIGHT * lines_per_msg_max + 12,
           "blocks_high": INFLIGHT * (span_max + 1) + W_BLOCKS + 8}
    if windowed:
        # the binary search probes about log2(blocks) places and may keep what it parsed at each of them
        probes = max(1, int(nblocks).bit_length()) + 2
        one_block_msgs = max(per_block_msgs.values()) if per_block_msgs else 1
        one_block_lines = max(per_block_lines.values()) if per_block_lines else 1
        out["syslines_high"] += probes * (one_block_msgs + 2)
        out["lines_high"] += probes * (one_block_lines + 2 * lines_per_msg_max)
        out["blocks_high"] += probes * (span_max + 1)
    return out


def run_case(seed, i, tier):
    rng = core.rng_for(seed, PROP, i)
    bsz, container, style, n0 = gen_family(rng)
    dense = (i % 160 == 47)      # (about 4 million scheduling steps a case: one per 160)
    if dense:
        # the opposite regime: thousands of short messages in each (large) block, a file of a few dozen such blocks
        bsz, style, n0 = 0x40000, "short", 4
        container = rng.choice(("plain", "plain", "gz", "lz4"))
    fmt = gen_fmt(seed, i)
    if tier != "quick" and rng.random() < 0.3:
        n0 *= 5
    pol = rng.choice(("starve:0", "starve:0", "starve:2", "random", "rr", "first:2", "pct"))
    second = rng.random() < 0.3
    # a start-up line of another component at the head of the file, in another notation than the log's own: with a block zero
    # that holds some ninety lines the log's own notation wins the analysis and the banner is a preamble (not printed). Only
    # in this regime: with a block zero of one or two lines the banner's notation would win and the rest be its continuation
    banner = (i % 20 == 9) and not dense and fmt == "slash"      # (log in the generator's usual notation, banner in ISO 8601: the other way round the banner's pattern, earlier in s4's table, wins)
    if banner:
        bsz, style, n0 = rng.choice((4096, 8192)), "short", 30
        container = rng.choice(("gz", "bz2", "lz4", "plain"))
    windowed = container == "plain" and rng.random() < 0.3 and not dense and not (i % 20 == 9)
    wfrac = rng.choice((0.1, 0.5, 0.9))
    cr = CaseResult()
    if dense:
        cr.probes["thousands_of_messages_per_block"] += 1
    if banner:
        cr.probes["first_message_in_another_notation"] += 1
    marks = {}
    planseed = rng.getrandbits(62)
    hashseed = rng.getrandbits(32)
    lrng_seed = rng.getrandbits(62)
    for mult in (1, 2, 4):
        lrng = core.random.Random(lrng_seed)    # same stream: the 2n log extends the n log's distribution
        content, msgs, maxmsg = gen_log(lrng, bsz, style, n0 * mult, fmt, banner)
        stored, descr = world.random_container(core.random.Random(lrng_seed + 1), container, content, 0, "big.log")
        path = "big.log" + world.SUFFIX[container]
        if banner:
            msgs = msgs[1:]
        srcs = [merge.Source(path, "text", msgs, stored, content, container, descr)]
        if second:
            c2, m2, _ = gen_log(core.random.Random(lrng_seed + 2), bsz, "short", 6)
            srcs.append(merge.Source("small.log", "text", m2, c2, c2))
        opts = ["--color", "never", "--blocksz", str(bsz), "--summary", "--tz-offset", "+00:00"]
        win_a = None
        if windowed:
            # the reader first searches the plain file for the first message at or after A (binary search):
            # the bound may additionally grow with the logarithm of the size, never linearly
            win_a = msgs[int(len(msgs) * wfrac)].instant
            import c03
            opts += ["-a", c03.fmt_bound(core.random.Random(1), win_a)]
            srcs = [merge.Source(x.path, x.kind, [m for m in x.msgs if m.instant >= win_a], x.stored, x.plain, x.container, x.descr)
                    for x in srcs]
            cr.probes["windowed_plain_file(binary_search_first)"] += 1
        plan = core.Plan(seed=planseed, policy=pol, stick=500 if pol == "random" else 0, pct_depth=2, pct_steps=500,
                         select_pick="random", budget=400 * (len(msgs) + 50) + 40 * n0 * mult + 5000)
        plan.hashseed = hashseed
        _, res = mergecheck.run_once(srcs, opts, plan)
        cr.runs += 1
        tr = res.trace
        cr.steps += tr.steps
        cr.steps_max = max(cr.steps_max, tr.steps)
        cr.policies[pol.split(":")[0]] += 1
        cr.probes.update(tracecheck.probes(tr))
        cr.decision_hashes.append(tr.decision_hash())
        cr.arrival_hashes.append(tr.arrival_hash())
        cr.faults["schedule_perturbation"] += 1
        cr.nontrivial_keys.append(core.derive(0, "%s|%d|%s" % (merge.scenario_for(srcs, opts).digest(), mult, tr.decision_hash())))
        vs = mergecheck.evaluate(res, merge.model_stdout(srcs), check_protocol=False)
        mk = parse_marks(res.stderr, path)
        if mk is None and not vs:
            vs.append(("summary_missing", "no --summary section for %s; stderr tail %r" % (path, res.stderr[-300:])))
        if mk:
            marks[mult] = mk
            if mk.get("drop_sysline_err", 0) > 0:
                cr.probes["drop_failed_because_coordinator_held_the_message"] += 1
            bounds = density_bounds(msgs, bsz, n0 * mult, windowed)
            for key in ("blocks_high", "lines_high", "syslines_high"):
                if key in mk and mk[key] > bounds[key]:
                    vs.append(("mark_over_model_bound_" + key,
                               "%s=%d > bound %d computed from the content (densest %d consecutive blocks + %d messages in flight%s) at %d blocks; marks so far %s" % (
                                   key, mk[key], bounds[key], W_BLOCKS, INFLIGHT, " + binary-search allowance" if windowed else "",
                                   n0 * mult, {m: marks[m] for m in marks})))
        for (cls, detail) in vs:
            known = classify_known(cls, style, container, mk)
            rp = mergecheck.make_replay(srcs, opts, plan, "UTC", res, {"class": cls, "c17": {
                "bsz": bsz, "style": style, "n0": n0, "mult": mult, "container": container, "windowed": windowed,
                "base_marks": marks.get(1), "maxmsg": maxmsg},
                "sources_unfiltered": mergecheck.sources_to_json([merge.Source(path, "text", msgs, stored, content, container, descr)]) if windowed else None})
            cr.violations.append(Violation(cls, "style=%s stamps=%s container=%s bsz=%d policy=%s n0=%d x%d: %s" % (
                style, fmt, container, bsz, pol, n0, mult, detail), rp, known=known))
        if vs:
            break
    if True:
        cr.sample = {"bsz": bsz, "container": container, "style": style, "stamp_format": fmt, "blocks": [n0, 2 * n0, 4 * n0], "policy": pol,
                     "second_source": second, "marks": {str(k): v for k, v in marks.items()}}
    return cr


KNOWN = {}


def classify_known(cls, style, container, mk):
    if not KNOWN:
        for kf in engine.load_known(PROP):
            if kf["status"] == "open":
                KNOWN[kf["id"]] = kf
    for kid, kf in KNOWN.items():
        sig = kf.get("signature", {})
        if cls in sig.get("classes", []) and (not sig.get("styles") or style in sig["styles"]) \
                and (not sig.get("containers") or container in sig["containers"]):
            return kid
    return None


def classes_of(rp):
    """re-run the replay's run and re-evaluate its marks against the recorded base marks"""
    srcs = mergecheck.sources_from_json(rp["sources"])
    plan = core.Plan.from_json(rp["plan"])
    _, res = mergecheck.run_once(srcs, rp["opts"], plan)
    cl = set(c for (c, _) in mergecheck.evaluate(res, merge.model_stdout(srcs), check_protocol=False))
    c17 = rp["c17"]
    mk = parse_marks(res.stderr, srcs[0].path)
    if mk is None:
        cl.add("summary_missing")
        return cl
    bounds = density_bounds(srcs[0].msgs if not c17.get("windowed") else mergecheck.sources_from_json(rp["sources_unfiltered"])[0].msgs,
                            c17["bsz"], c17["n0"] * c17["mult"], c17.get("windowed", False))
    for key in ("blocks_high", "lines_high", "syslines_high"):
        if key in mk and mk[key] > bounds[key]:
            cl.add("mark_over_model_bound_" + key)
    return cl


def replay(rp):
    cl = classes_of(rp)
    return (rp.get("class") in cl) if rp.get("class") else bool(cl)


RULE = ("one case = one streaming text source (plain/gz/bz2/lz4; line styles short / mixed / multi-block messages / "
        "messages tiling the blocks exactly; block sizes 64..1024), optionally next to a second small source, run at "
        "n, 2n, 4n blocks under one adversarial policy (starved coordinator, starved worker, random, round-robin, "
        "worker-first, PCT); marks read from --summary. non-trivial = every run; distinct = (scenario, size, decision sequence)")
ASSUMPTIONS = ["the --summary high-water marks are the measure the property names; RSS is not measured",
               "bound = densest 4 consecutive blocks of the generated content + 9 messages in flight (+ slack 6 syslines / 12 lines / 8 blocks); "
               "with a window on a plain file + (log2(blocks)+2) probes x one block's worth"]


def main(tier):
    n = 160 if tier == "quick" else 3000
    cap = 400 if tier == "quick" else 1500
    return engine.run_check(PROP, "c17", tier, n, cap, "exploration", RULE, ASSUMPTIONS)
