"""Multi-source world generator and the reference model of s4's merged output.

Model (written from the property statements, sharing no code with s4):
  * each source's messages keep their file order;
  * the next message printed is the head with the smallest (instant, source index), source index =
    position among the named paths (greedy head merge: exactly "earliest pending message, ties in the
    order the sources were named");
  * a source whose last message lacks a final newline gets one "\n" appended after that message.
"""
import core
import world


class Source:
    def __init__(self, path, kind, msgs, stored, plain, container="plain", descr=None, mtime=None):
        self.path = path            # as named on the command line (relative)
        self.kind = kind            # text | notimestamp | empty | tiny | missing
        self.msgs = msgs            # [world.Msg]
        self.stored = stored        # bytes on disk (None for missing)
        self.plain = plain          # uncompressed content
        self.container = container
        self.descr = descr or {}
        self.mtime = mtime


def model_merge(sources):
    """-> list of (source index, Msg, is_last) in print order."""
    heads = [0] * len(sources)
    out = []
    while True:
        best = None
        for si, s in enumerate(sources):
            if heads[si] < len(s.msgs):
                m = s.msgs[heads[si]]
                key = (m.instant, si)
                if best is None or key < best[0]:
                    best = (key, si)
        if best is None:
            break
        si = best[1]
        m = sources[si].msgs[heads[si]]
        heads[si] += 1
        out.append((si, m, heads[si] == len(sources[si].msgs)))
    return out


def model_stdout(sources, separator=b""):
    out = bytearray()
    for (si, m, is_last) in model_merge(sources):
        out += m.data
        out += separator
        if is_last and not m.data.endswith(b"\n"):
            out += b"\n"
    return bytes(out)


POOL_STEP = 1_000_000_000


def first_line_end(msgs, preamble=b""):
    """file offset just past the newline of the first timestamped line"""
    d = msgs[0].data
    k = d.find(b"\n")
    return len(preamble) + (k + 1 if k >= 0 else len(d))


BLOCKZERO_BIG = 8096


def blockzero_safe(content, msgs, bsz, preamble=b""):
    """True when s4's block-zero analysis is certain to accept the file (conservative form).

    Observed rule (probe, and src/readers/syslogprocessor.rs blockzero_analysis_*): with b0 = the
    length of block zero = min(blocksz, filesize): if b0 < 8096 the first timestamped line must end
    inside block zero; if b0 >= 8096 block zero must hold >= 3 lines and >= 2 messages. A file that
    fails the analysis is dropped silently (known finding F-C12a). Generators keep the bulk of their
    scenarios inside this predicate so everything else is checked at full strength."""
    if not msgs:
        return True
    b0 = min(bsz, len(content))
    if b0 < BLOCKZERO_BIG:
        return first_line_end(msgs, preamble) <= b0
    if len(msgs) < 2:
        return False
    blk = content[:b0]
    if blk.count(b"\n") < 3:
        return False
    # head lines of the first two messages end inside block zero
    off = len(preamble) + len(msgs[0].data)
    d1 = msgs[1].data
    k = d1.find(b"\n")
    end2 = off + (k + 1 if k >= 0 else len(d1))
    return first_line_end(msgs, preamble) <= b0 and end2 <= b0


def gen_sources(rng, n_sources, bsz, max_msgs=12, containers=("plain",), tie_heavy=True,
                allow_degenerate=True, special=0.0, first_line_max=None, t0=None, letter_base=0,
                crlf_p=0.0, blank_p=0.1, preamble_p=0.0, frac_choices=(3, 3, 6, 9, 1), safe_sizes=None,
                notations=(1, 1, 1, 2, 3, 0, 1, 1, 2, 3, 0, 6)):
    """Text sources with instants drawn from a small common pool (ties inside and across sources)."""
    t0 = t0 if t0 is not None else 946684800_000_000_000 + rng.randrange(0, 20 * 365) * 86400_000_000_000
    pool_n = rng.choice((2, 3, 5, 8, 30)) if tie_heavy else 10000
    pool = sorted(t0 + rng.randrange(0, pool_n * 4) * rng.choice((1_000_000, POOL_STEP, POOL_STEP, 60 * POOL_STEP))
                  for _ in range(pool_n))
    sources = []
    for si in range(n_sources):
        letter = bytes([65 + (letter_base + si) % 26])
        r = rng.random()
        name = "s%d_%s.log" % (si, letter.decode().lower())
        if allow_degenerate and r < 0.05:
            sources.append(Source(name, "empty", [], b"", b""))
            continue
        if allow_degenerate and r < 0.08:
            d = b"ab\n"
            sources.append(Source(name, "tiny", [], d, d))
            continue
        if allow_degenerate and r < 0.11:
            sources.append(Source(name, "missing", [], None, None))
            continue
        if allow_degenerate and r < 0.16:
            d = b"".join(world._body(rng, rng.randint(5, 40), 0) + b"\n" for _ in range(rng.randint(1, 6)))
            sources.append(Source(name, "notimestamp", [], d, d))
            continue
        n = rng.choice((1, 1, 2, 3, 5, 6, 7, 9, 12, max_msgs))
        n = min(n, max_msgs)
        inst = sorted(rng.choice(pool) for _ in range(n))
        notation = rng.choice(notations)
        off = rng.choice(world.OFFSETS_HOUR if notation == 3 else world.OFFSETS_ALL)
        if notation in (0, 6, 8):
            off = 0  # zone-less stamps are written in UTC and the run passes --tz-offset +00:00
        prefix_len = rng.choice((0, 0, 0, 3, 12, 40, 150, 400)) if notation >= 4 else 0
        p = world.TextLogParams(notation=notation, off_min=off, vary_offset=rng.random() < 0.3,
                                n_msgs=n, src_letter=letter, bsz=bsz if (rng.random() < 0.5 and bsz <= 4096) else 0,
                                cont_p=rng.choice((0.0, 0.3, 0.6)), special=special,
                                final_newline=rng.random() < 0.8, instants=inst,
                                frac_digits=frac_for(notation, rng.choice(frac_choices)), crlf_p=crlf_p, blank_p=blank_p,
                                preamble_lines=(rng.randint(1, 3) if rng.random() < preamble_p else 0),
                                body_len=(0, rng.choice((10, 40, 120))), prefix_len=prefix_len)
        if first_line_max is not None:
            p.boundary_p = 0.15
            p.long_p = 0.0
        content, msgs, pre = world.gen_text_log(rng, p)
        lim = first_line_max if first_line_max is not None else bsz
        sizes = safe_sizes or (bsz,)
        tries = 0
        while msgs and (first_line_end(msgs, pre) > lim or not all(blockzero_safe(content, msgs, b, pre) for b in sizes)):
            # keep the first timestamped line inside block zero: otherwise s4 silently drops the whole
            # file (known finding F-C12a); the bulk of generated scenarios is steered away from it
            tries += 1
            if tries >= 3 and p.notation >= 4:
                p.notation, p.prefix_len = 1, 0      # a stamp deep inside the first line cannot fit this block zero
            p.bsz = 0
            p.body_len = (0, 20 if tries < 3 else 4)
            if tries >= 2:
                p.preamble_lines = 0
            if tries >= 4:
                p.long_p = 0.0
                p.cont_p = 0.0
                p.n_msgs = max(p.n_msgs, 4)
                if p.instants is not None and len(p.instants) < p.n_msgs:
                    p.instants = sorted(list(p.instants) + [p.instants[-1]] * (p.n_msgs - len(p.instants)))
            content, msgs, pre = world.gen_text_log(rng, p)
        kind = rng.choice(containers)
        # modification times (file system, gz header): stamps that carry a year owe nothing to them, so they are drawn
        # freely -- long before, inside and after the span of the messages, and "now"
        mt_file, mt_hdr = draw_mtime(rng, msgs), draw_mtime(rng, msgs) or 0
        stored, descr = world.random_container(rng, kind, content, mtime=mt_hdr, name=name)
        src = Source(name + world.SUFFIX[kind], "text", msgs, stored, content, kind, descr, mtime=mt_file)
        src.hdr_mtime = mt_hdr
        src.notation = p.notation
        sources.append(src)
    return sources


# notations for checks that do not care where in the line the stamp sits: mostly column 0, one source in eight with the
# stamp inside the line (world.line_head, notations 4 and 5: found by s4's wide patterns only)
NOTATIONS_WIDE = (1, 1, 1, 1, 1, 1, 2, 2, 3, 3, 0, 0, 1, 1, 4, 5, 6, 6, 7, 8, 8, 1)


def frac_for(notation, fd):
    """epoch stamps (notation 8) are recognised with 3, 6 or 9 fraction digits only"""
    return fd if (notation != 8 or fd in (3, 6, 9)) else 3


def draw_mtime(rng, msgs):
    """seconds since the epoch, or None for 'whenever the file is written'"""
    r = rng.random()
    if r < 0.3 or not msgs:
        return None
    ts = [m.instant // 1_000_000_000 for m in msgs]
    if r < 0.45:
        return 86400 + rng.randrange(0, 1000)                 # 1970
    if r < 0.6:
        return max(1, ts[0] - rng.choice((1, 3600, 86400 * 400)))
    if r < 0.75:
        return max(1, rng.choice(ts) + rng.choice((-1, 0, 1)))
    if r < 0.9:
        return ts[-1] + rng.choice((0, 1, 3600))
    return 3786912000 + rng.randrange(0, 1000)                # 2090


def inflate_message(rng, src, style=None):
    """make one message of a text source large: a single line beyond the printers' 2056-byte staging buffer, or many
    continuation lines adding up to several KiB. The message keeps its instant and its first bytes; plain and stored forms
    are rebuilt."""
    if src.kind != "text" or not src.msgs or src.plain is None:
        return None
    if len(src.msgs) < 3:
        return None
    # not one of the first two messages: a large block zero must hold three lines / two messages, or the whole file is
    # dropped (known finding F-C02a, not this helper's business)
    k = rng.randrange(2, len(src.msgs))
    m = src.msgs[k]
    style = style or rng.choice(("long_line", "many_lines"))
    data = m.data
    nl = b"\n"
    first_end = data.find(nl)
    unterminated = first_end < 0
    if unterminated:
        first_end = len(data)
    if style == "long_line":
        target = rng.choice((2040, 2055, 2056, 2057, 2058, 2100, 5000, 9000))
        pad = max(0, target - (first_end + 1))
        new = data[:first_end] + b" " + world._body(rng, pad, 0) + data[first_end:]
    elif style == "thousands_of_lines":
        # a dump: far more continuation lines than any per-message limit a reader might think of (1030..3000 short lines)
        extra = b"".join(b"  row " + world.fast_body(rng, rng.randint(1, 16)) + nl for _ in range(rng.choice((1030, 1500, 3000))))
        if unterminated:
            new = data + nl + extra[:-1]
        else:
            new = data[:first_end + 1] + extra + data[first_end + 1:]
    else:
        extra = b"".join(b"  at frame " + world._body(rng, rng.randint(20, 200), 0) + nl for _ in range(rng.randint(15, 60)))
        if unterminated:
            new = data + nl + extra[:-1]
        else:
            new = data[:first_end + 1] + extra + data[first_end + 1:]
    pre_len = sum(len(x.data) for x in src.msgs[:k])
    head_len = len(src.plain) - sum(len(x.data) for x in src.msgs)      # preamble before the first message
    off = head_len + pre_len
    src.plain = src.plain[:off] + new + src.plain[off + len(data):]
    m.data = new
    if src.container == "plain":
        src.stored = src.plain
    else:
        src.stored, src.descr = world.random_container(rng, src.container, src.plain, mtime=getattr(src, "hdr_mtime", 0), name=src.path)
    return style


def scenario_for(sources, argv_opts, tz="UTC", order=None):
    files = []
    for s in sources:
        if s.stored is not None:
            files.append(core.FileSpec(s.path, s.stored, s.mtime))
    paths = [s.path for s in sources]
    return core.Scenario(files, list(argv_opts) + paths, None, tz)


def describe(sources):
    return [{"path": s.path, "kind": s.kind, "container": s.container, "msgs": len(s.msgs),
             "bytes": None if s.stored is None else len(s.stored)} for s in sources]
