"""./check dispatcher. Every property check first rebuilds s4 (cfg s4_verif) from /repo's working tree."""
import json
import os
import sys

sys.path.insert(0, os.path.dirname(os.path.abspath(__file__)))

import build  # noqa: E402

MODULES = {"C01": "c01", "C02": "c02", "C03": "c03", "C05": "c05", "C06": "c06", "C07": "c07", "C08": "c08",
           "C09": "c09", "C10": "c10", "C11": "c11", "C12": "c12", "C13": "c13", "C14": "c14", "C15": "c15",
           "C17": "c17", "C18": "c18", "C19": "c19"}


def main(argv):
    if len(argv) < 1:
        print(__doc__)
        return 2
    try:
        if argv[0] == "build":
            print(build.build_all(quiet=False))
            return 0
        build.build_all()
        if argv[0] == "replay":
            doc = json.load(open(argv[1]))
            if "property" not in doc:
                # a pinned replay of a known finding (known/F-*.json): the bare replay document; its property is recorded
                # in known_findings.json
                base = os.path.basename(argv[1])
                kf = [k for k in json.load(open(os.path.join(build.VERIF, "known_findings.json")))
                      if os.path.basename(k.get("replay") or "") == base]
                if not kf:
                    sys.stderr.write("HARNESS ERROR: %s is neither a violation file nor a pinned replay listed in known_findings.json\n" % argv[1])
                    return 2
                doc = {"property": kf[0]["property"], "class": doc.get("class"), "replay": doc}
            mod = __import__(MODULES[doc["property"]])
            rp = dict(doc["replay"])
            rp["class"] = doc["class"]
            import engine
            ok = engine.replay_document(mod, rp)
            if ok:
                print("VIOLATION property=%s replay=%s" % (doc["property"], argv[1]))
                print("  class=%s reproduced" % doc["class"])
                return 1
            print("replay %s: class %s does not reproduce on the current tree" % (argv[1], doc["class"]))
            return 0
        if argv[0] == "selftest":
            import selftest
            return selftest.main(argv[1:])
        pid = argv[0].upper()
        tier = argv[1] if len(argv) > 1 else os.environ.get("VERIF_TIER", "quick")
        if pid not in MODULES:
            sys.stderr.write("unknown property %s\n" % pid)
            return 2
        mod = __import__(MODULES[pid])
        return mod.main(tier)
    except build.HarnessError as e:
        sys.stderr.write("HARNESS ERROR: %s\n" % e)
        return 2
    except Exception:
        import traceback
        sys.stderr.write("HARNESS ERROR (internal):\n" + traceback.format_exc())
        return 2


if __name__ == "__main__":
    sys.exit(main(sys.argv[1:]))
