"""Shared machinery for the merge-type properties (C01, C06 and the group-B checks that reuse the
multi-source world): run a scenario under a plan, evaluate the oracles, replay, minimise."""
import base64
import json

import core
import merge
import tracecheck
import world
from engine import Violation


def step_budget(sources, bsz):
    msgs = sum(len(s.msgs) for s in sources)
    blocks = sum((len(s.plain or b"") // max(bsz, 1)) + 1 for s in sources)
    return 2000 + 120 * (msgs + 4 * len(sources)) + 12 * blocks


def n_workers(sources):
    return sum(1 for s in sources if s.kind in ("text", "notimestamp"))


def sources_to_json(sources):
    out = []
    for s in sources:
        out.append({"path": s.path, "kind": s.kind, "container": s.container, "descr": s.descr,
                    "mtime": s.mtime,
                    "stored_b64": None if s.stored is None else base64.b64encode(s.stored).decode(),
                    "plain_b64": None if s.plain is None else base64.b64encode(s.plain).decode(),
                    "msgs": [{"instant": m.instant, "data_b64": base64.b64encode(m.data).decode(),
                              "tag": m.tag.decode("latin-1"), "off_min": m.off_min} for m in s.msgs]})
    return out


def sources_from_json(js):
    out = []
    for d in js:
        msgs = [world.Msg(m["instant"], base64.b64decode(m["data_b64"]), m["tag"].encode("latin-1"), m.get("off_min", 0))
                for m in d["msgs"]]
        out.append(merge.Source(d["path"], d["kind"], msgs,
                                None if d["stored_b64"] is None else base64.b64decode(d["stored_b64"]),
                                None if d["plain_b64"] is None else base64.b64decode(d["plain_b64"]),
                                d.get("container", "plain"), d.get("descr"), d.get("mtime")))
    return out


def run_once(sources, opts, plan, tz="UTC", keep=False):
    scn = merge.scenario_for(sources, opts, tz)
    res = core.execute(scn, plan, keep=keep)     # (an isolated re-run on wall-clock timeout happens inside execute)
    return scn, res


def first_diff(a, b):
    n = min(len(a), len(b))
    for i in range(n):
        if a[i] != b[i]:
            return i
    return n if len(a) != len(b) else -1


def show_diff(got, want, ctx=60):
    i = first_diff(got, want)
    if i < 0:
        return "identical"
    lo = max(0, i - ctx)
    return "first difference at byte %d (got %d bytes, expected %d)\n   got: %r\n  want: %r" % (
        i, len(got), len(want), got[lo:i + ctx], want[lo:i + ctx])


def coloured(opts):
    """True when the options ask for colour whatever stdout is (generated bodies never hold an ESC byte, so deleting the SGR
    sequences of such a run gives back exactly what --color never prints)"""
    opts = list(opts or [])
    return any(opts[k] == "--color" and opts[k + 1] == "always" for k in range(len(opts) - 1))


def evaluate(res, expected, check_protocol=True, signalled=False, opts=None):
    """Oracles over one run -> list of (class, detail)."""
    v = []
    tr = res.trace
    if res.timed_out:
        v.append(("wall_timeout", "run did not end within the wall-clock cap (twice)"))
        return v
    if res.rc == 99:
        v.append(("deadlock", "scheduler found no enabled thread: %s" % (tr.z,)))
        return v
    if res.rc in (98, 96):
        v.append(("livelock", "step budget exceeded: %s" % (tr.z,)))
        return v
    if res.rc == 95:
        raise RuntimeError("harness error reported by s4_verif_rt: %r" % res.stderr[-500:])
    if res.crashed() or b"panicked at" in res.stderr:
        v.append(("crash", "exit status %s; stderr tail: %r" % (res.rc, res.stderr[-600:])))
        return v
    if expected is not None:
        got = res.stdout
        if coloured(opts):
            import decor
            got = decor.strip_colour(got)
            if got and got == res.stdout:
                v.append(("colour_always_emits_no_escape", "no SGR sequence in %d bytes of output" % len(got)))
        if got != expected:
            v.append(("stdout_differs_from_model", show_diff(got, expected)))
    if check_protocol and tr is not None:
        for (inv, detail) in tracecheck.check_protocol(tr, signalled):
            v.append(("protocol_" + inv, detail))
    return v


def make_replay(sources, opts, plan, tz, res, extra=None):
    rp = {"kind": "merge", "sources": sources_to_json(sources), "opts": list(opts), "tz": tz,
          "plan": plan.as_replay(res.trace).to_json() if res is not None and res.trace is not None else plan.to_json(),
          "plan_original": plan.to_json()}
    if extra:
        rp.update(extra)
    return rp


def classes_of(rp, check_protocol=True):
    """Re-run a merge-type replay; returns the set of violation classes observed."""
    sources = sources_from_json(rp["sources"])
    plan = core.Plan.from_json(rp["plan"])
    expected = None if rp.get("no_model") else merge.model_stdout(sources, base64.b64decode(rp.get("separator_b64", "")))
    _, res = run_once(sources, rp["opts"], plan, rp.get("tz", "UTC"))
    cl = set(c for (c, _) in evaluate(res, expected, check_protocol, opts=rp["opts"]))
    if rp.get("reference_stdout_b64") is not None:
        if res.stdout != base64.b64decode(rp["reference_stdout_b64"]):
            cl.add("stdout_differs_across_schedules")
    if rp.get("reference_rc") is not None and res.rc != rp["reference_rc"]:
        cl.add("exit_status_differs_across_schedules")
    return cl


def replay(rp):
    """True if the violation class recorded in the replay still reproduces."""
    cls = rp.get("class")
    cl = classes_of(rp)
    if cls is None:
        return bool(cl)
    return cls in cl


def minimise(rp, cls, max_runs=150):
    """Shrink schedule first (tail -> lowest-enabled, then individual deviations), then the scenario
    (drop sources, drop messages), keeping a candidate only if the same class still fails."""
    runs = [0]

    def bsz_of(cand):
        o = cand["opts"]
        return int(o[o.index("--blocksz") + 1], 0) if "--blocksz" in o else 65536

    def fails(cand):
        # never minimise into the precondition of known finding F-C12a (first line beyond block zero)
        for s in cand["sources"]:
            if s["kind"] == "text" and s["msgs"] and s["plain_b64"] is not None:
                ms = [world.Msg(m["instant"], base64.b64decode(m["data_b64"]), b"") for m in s["msgs"][:2]]
                if not merge.blockzero_safe(base64.b64decode(s["plain_b64"]), ms, bsz_of(cand)):
                    return False
        if not core.budget_ok():
            return False
        runs[0] += 1
        try:
            return cls in classes_of(cand)
        except Exception:
            return False

    cur = json.loads(json.dumps(rp))
    if not fails(cur):
        return rp
    # --- schedule: shortest failing prefix of the choice list
    ch = cur["plan"].get("choices") or []
    lo, hi = 0, len(ch)
    while lo < hi and runs[0] < max_runs:
        mid = (lo + hi) // 2
        cand = json.loads(json.dumps(cur))
        cand["plan"]["choices"] = ch[:mid]
        if fails(cand):
            hi = mid
        else:
            lo = mid + 1
    cand = json.loads(json.dumps(cur))
    cand["plan"]["choices"] = ch[:hi]
    if fails(cand):
        cur = cand
    # select picks -> all zero
    cand = json.loads(json.dumps(cur))
    cand["plan"]["picks"] = []
    if fails(cand):
        cur = cand
    # --- scenario: drop whole sources
    i = 0
    while i < len(cur["sources"]) and runs[0] < max_runs and len(cur["sources"]) > 1:
        cand = json.loads(json.dumps(cur))
        del cand["sources"][i]
        if cand.get("reference_stdout_b64") is not None:
            i += 1
            continue  # metamorphic reference would be stale; keep sources
        if fails(cand):
            cur = cand
        else:
            i += 1
    # --- drop messages of plain text sources (content rebuilt from the remaining messages)
    for si, s in enumerate(cur["sources"]):
        if s["kind"] != "text" or s["container"] != "plain" or cur.get("reference_stdout_b64") is not None:
            continue
        j = 0
        while j < len(cur["sources"][si]["msgs"]) and runs[0] < max_runs and len(cur["sources"][si]["msgs"]) > 1:
            cand = json.loads(json.dumps(cur))
            del cand["sources"][si]["msgs"][j]
            data = b"".join(base64.b64decode(m["data_b64"]) for m in cand["sources"][si]["msgs"])
            cand["sources"][si]["stored_b64"] = base64.b64encode(data).decode()
            cand["sources"][si]["plain_b64"] = cand["sources"][si]["stored_b64"]
            if fails(cand):
                cur = cand
            else:
                j += 1
    cur["minimised_runs"] = runs[0]
    return cur
