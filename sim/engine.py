"""Check engine: runs N independent simulated cases of a property on all cores, aggregates coverage,
handles known findings, minimisation, replay files, evidence and the exit-code contract.

exit 0  property held on everything explored (known findings printed as KNOWN-FINDING lines)
exit 1  + `VIOLATION property=<id> replay=<path>`
exit 2  harness error (build failure, missing tool, internal exception) -- never a verdict
"""
import collections
import hashlib
import json
import multiprocessing as mp
import os
import sys
import time
import traceback

import core
from build import VERIF, HarnessError

COMPONENTS = {
    "real": ["s4 main(): cli_process_args, process_path, processing_loop, recv_many_chan, SIGINT handler body",
             "s4 worker bodies exec_syslogprocessor / exec_fixedstructprocessor / exec_evtxprocessor / exec_journalprocessor",
             "all of s4lib (block/line/sysline readers, fixedstruct/evtx/journal readers, decompressors, printers, summary)",
             "flate2, bzip2-rs, lz4_flex, lzma-rs, tar, evtx, tempfile, chrono, regex, libsystemd (FFI), kernel filesystem"],
    "stub_or_model": ["crossbeam-channel -> FIFO bounded queue + select=any ready receiver (s4_verif_rt::chan)",
                      "std::sync::RwLock -> readers/writer exclusion, acquisition is a scheduling point (s4_verif_rt::sync)",
                      "std::thread spawn/OS scheduler -> baton scheduler, seeded policies (s4_verif_rt::sched)",
                      "ctrlc + kernel signal delivery -> handler closure run by a simulated thread at a planned step",
                      "wall clock -> plan `now=`; local zone -> TZ; getrandom(2) -> LD_PRELOAD shim seeded by the plan",
                      "write(2)/writev(2)/read(2) -> the same LD_PRELOAD shim: short writes on stdout/stderr/temporary copies, short reads of "
                      "inputs, EPIPE, ENOSPC under TMPDIR, EIO on input reads, armed by the plan (otherwise passed through to the kernel)",
                      "deadlines of timed channel operations -> simulated (expire by scheduler decision, budgeted per run)"],
    "uncontrolled": ["rayon pools inside jwalk and evtx (confined to one step; assumed order-preserving)"],
}


class Violation:
    def __init__(self, cls, detail, replay=None, known=None):
        self.cls = cls            # violation class (stable string)
        self.detail = detail      # human-readable
        self.replay = replay      # JSON-able dict sufficient to replay
        self.known = known        # id of the known finding whose signature matches, or None


class CaseResult:
    def __init__(self):
        self.runs = 0                      # simulated executions in this case
        self.steps = 0
        self.steps_max = 0
        self.nontrivial_keys = []          # hashes of non-trivial distinct runs
        self.decision_hashes = []
        self.arrival_hashes = []
        self.faults = collections.Counter()
        self.probes = collections.Counter()
        self.policies = collections.Counter()
        self.violations = []               # [Violation]
        self.sample = None
        self.clock_span = None             # (min, max) simulated instants


def replay_document(mod, rp):
    """True when the replay document reproduces its violation class on the current tree"""
    if rp.get("kind") == "regenerate":
        m = __import__(rp["module"])
        cr = m.run_case(rp["seed"], rp["case"], rp["tier"])
        cls = set(v.cls for v in cr.violations)
        return (rp.get("class") in cls) if rp.get("class") else bool(cls)
    return mod.replay(rp)


def _worker(args):
    mod_name, seed, i, tier = args
    try:
        mod = __import__(mod_name)
        core.IOFAULT_RUNS.clear()
        r = mod.run_case(seed, i, tier)
        if any(v.known is None and v.cls != "wall_timeout" for v in r.violations):
            # A violation must be a function of the case: the whole case is executed once more, one such re-run at a time across
            # the workers, and only classes seen both times are kept. What this turns away is machine load acting on the parts
            # that run real and uncontrolled inside a step -- jwalk gives up on a directory walk (empty output, or an abort)
            # when its rayon pool does not start within a second, which a loaded machine can cause; a deterministic violation
            # comes back identically. Dropped ones are counted in the evidence (probe violation_not_reproduced_on_rerun).
            import fcntl
            os.makedirs(core.scratch_root(), exist_ok=True)
            with open(os.path.join(core.scratch_root(), ".rerun.lock"), "w") as lk:      # (not core.execute's .retry.lock: that one is taken inside)
                fcntl.flock(lk, fcntl.LOCK_EX)
                r2 = mod.run_case(seed, i, tier)
            again = set(v.cls for v in r2.violations)
            kept = [v for v in r.violations if v.cls in again or v.cls == "wall_timeout"]
            if len(kept) != len(r.violations):
                r.probes["violation_not_reproduced_on_rerun"] += len(r.violations) - len(kept)
            r.violations = kept
        for (k, v) in core.IOFAULT_RUNS.items():     # runs executed with a write-level fault armed (preload/seed.c)
            if k == "sw":
                r.faults["short_writes_stdout_stderr_tmp(run)"] += v
            if k == "sr":
                r.faults["short_reads_of_inputs(run)"] += v
        return (i, r, None)
    except Exception:
        return (i, None, traceback.format_exc())
    finally:
        pass


def _worker_init():
    import atexit
    atexit.register(core.cleanup_scratch)


def run_check(prop_id, mod_name, tier, n_cases, wall_cap, level, rule, assumptions, replay_only=None):
    """Generic driver for one property check."""
    t0 = time.time()
    core.purge_stale_scratch()
    seed = int(os.environ.get("VERIF_SEED", "20260101"))
    mod = __import__(mod_name)
    known = load_known(prop_id)
    agg = CaseResult()
    distinct = set()
    dec = set()
    arr = set()
    samples = []
    violations = []
    errors = []
    done = 0
    nproc = int(os.environ.get("S4SIM_WORKERS", "16"))
    with mp.Pool(nproc, initializer=_worker_init) as pool:
        it = pool.imap_unordered(_worker, ((mod_name, seed, i, tier) for i in range(n_cases)), chunksize=1)
        for (i, r, err) in it:
            if err is not None:
                errors.append((i, err))
                if len(errors) > 3:
                    break
                continue
            done += 1
            agg.runs += r.runs
            agg.steps += r.steps
            agg.steps_max = max(agg.steps_max, r.steps_max)
            agg.faults.update(r.faults)
            agg.probes.update(r.probes)
            agg.policies.update(r.policies)
            distinct.update(r.nontrivial_keys)
            dec.update(r.decision_hashes)
            arr.update(r.arrival_hashes)
            if r.clock_span:
                if agg.clock_span is None:
                    agg.clock_span = list(r.clock_span)
                else:
                    agg.clock_span[0] = min(agg.clock_span[0], r.clock_span[0])
                    agg.clock_span[1] = max(agg.clock_span[1], r.clock_span[1])
            if r.sample is not None:
                samples.append((i, r.sample))
                samples.sort(key=lambda x: x[0])
                del samples[3:]
            for v in r.violations:
                violations.append((i, v))
            if time.time() - t0 > wall_cap:
                pool.terminate()
                break
            if len([1 for (_, v) in violations if v.known is None]) >= int(os.environ.get("S4SIM_MAXVIOL", "8")):
                pool.terminate()
                break
    core.cleanup_scratch()
    core.purge_stale_scratch()
    if errors:
        sys.stderr.write("HARNESS ERROR in case %d:\n%s\n" % errors[0])
        return 2
    # known findings: pinned replays are re-run on every check
    known_lines = []
    seen_known = set()
    for kf in known:
        if kf["status"] != "open":
            continue
        still = mod.replay(json.load(open(os.path.join(VERIF, kf["replay"]))))
        if still:
            known_lines.append("KNOWN-FINDING: property=%s %s [%s]" % (prop_id, kf["what"], kf["id"]))
            seen_known.add(kf["id"])
        else:
            known_lines.append("NOTE: known finding %s no longer reproduces from its pinned replay" % kf["id"])
    unknown = sorted([(i, v) for (i, v) in violations if v.known is None], key=lambda x: x[0])
    for (i, v) in violations:
        if v.known is not None and v.known not in seen_known:
            seen_known.add(v.known)
    for ln in known_lines:
        print(ln)
    if os.environ.get("S4SIM_VERBOSE"):
        for (i, v) in sorted(violations, key=lambda x: x[0]):
            print("  [case %d] %s known=%s :: %s" % (i, v.cls, v.known, v.detail[:260].replace("\n", " ")))
    rc = 0
    vio_paths = []
    if unknown:
        rc = 1
        rdir = os.path.join(VERIF, "replays") if not os.environ.get("S4SIM_NO_EVIDENCE") else os.path.join(core.scratch_root(), "replays-selftest")
        os.makedirs(rdir, exist_ok=True)
        reported = set()
        for (i, v) in unknown:
            if v.cls in reported:
                continue
            reported.add(v.cls)
            rp = v.replay
            if rp is None:
                # too large to inline (a multi-megabyte shipped journal in the scenario): the run is a pure function of
                # (VERIF_SEED, case index, tier), so the replay document names those and the case is regenerated
                rp = {"kind": "regenerate", "module": mod_name, "seed": seed, "case": i, "tier": tier}
            core.MINIMISE_DEADLINE[0] = time.time() + float(os.environ.get("S4SIM_MINIMISE_WALL", "180"))
            try:
                if rp.get("kind") == "regenerate":
                    pass
                elif hasattr(mod, "minimise") and rp is not None:
                    rp = mod.minimise(rp, v.cls)
                elif hasattr(mod, "classes_of") and rp is not None:
                    rp = minimise_schedule(rp, v.cls, mod.classes_of)
            except Exception:
                sys.stderr.write("minimiser failed (reporting unminimised):\n" + traceback.format_exc())
            finally:
                core.MINIMISE_DEADLINE[0] = None
            path = os.path.join(rdir, "%s-%s-%d.json" % (prop_id, v.cls, core.derive(seed, prop_id, i) % 10**9))
            doc = {"version": 1, "property": prop_id, "class": v.cls, "verif_seed": seed, "case": i,
                   "detail": v.detail[:4000], "replay": rp}
            with open(path, "w") as fh:
                json.dump(doc, fh, indent=1)
            # confirm in-process that the written file reproduces
            try:
                again = replay_document(mod, json.load(open(path))["replay"] | {"class": v.cls})
            except Exception:
                again = None
            print("VIOLATION property=%s replay=%s" % (prop_id, path))
            print("  class=%s reproduced_from_file=%s" % (v.cls, again))
            print("  " + v.detail[:1500].replace("\n", "\n  "))
            vio_paths.append(path)
    wall = time.time() - t0
    ev = {
        "property_id": prop_id,
        "tier": tier,
        "seed": seed,
        "level": level,
        "coverage": {
            "evaluations": agg.runs,
            "cases": done,
            "distinct_nontrivial": len(distinct),
            "rule": rule,
            "samples": [dict(case=i, **smp) if isinstance(smp, dict) else smp for (i, smp) in samples],
            "runs_per_hour": int(agg.runs / max(wall, 1e-9) * 3600),
            "steps_total": agg.steps,
            "steps_max": agg.steps_max,
            "simulated_time_note": "s4 has no timers: simulated time is logical scheduler steps (steps_total); "
                                   "simulated wall-clock instants covered are in simulated_clock_span where a clock is involved",
            "simulated_clock_span": agg.clock_span,
            "faults_fired": dict(agg.faults),
            "interleavings_distinct": {"decision_hash": len(dec), "arrival_hash": len(arr)},
            "probes": dict(agg.probes),
            "policies": dict(agg.policies),
            "components": COMPONENTS,
            "known_findings_seen": sorted(seen_known),
        },
        "assumptions": assumptions,
        "wall_s": round(wall, 2),
        "violations": len(unknown),
    }
    if not os.environ.get("S4SIM_NO_EVIDENCE"):
        os.makedirs(os.path.join(VERIF, "evidence"), exist_ok=True)
        with open(os.path.join(VERIF, "evidence", "%s.json" % prop_id), "w") as fh:
            json.dump(ev, fh, indent=1, default=str)
    print("%s %s: %d cases, %d simulated runs, %d distinct non-trivial, %d steps, %.1fs, violations=%d known=%s" % (
        prop_id, tier, done, agg.runs, len(distinct), agg.steps, wall, len(unknown), sorted(seen_known)))
    return rc


def minimise_schedule(rp, cls, classes_of, max_runs=24):
    """generic: shortest failing prefix of the explicit choice list (the tail falls back to lowest-enabled-id),
    then select picks -> first ready; the scenario is kept."""
    cur = json.loads(json.dumps(rp))
    plan = cur.get("plan") or {}
    ch = plan.get("choices") or []
    if not ch:
        return rp
    runs = 0

    def fails(c):
        nonlocal runs
        if not core.budget_ok():
            return False
        runs += 1
        try:
            return cls in classes_of(c)
        except Exception:
            return False
    if not fails(cur):
        return rp
    lo, hi = 0, len(ch)
    while lo < hi and runs < max_runs:
        mid = (lo + hi) // 2
        cand = json.loads(json.dumps(cur))
        cand["plan"]["choices"] = ch[:mid]
        if fails(cand):
            hi = mid
        else:
            lo = mid + 1
    cand = json.loads(json.dumps(cur))
    cand["plan"]["choices"] = ch[:hi]
    if fails(cand):
        cur = cand
    cand = json.loads(json.dumps(cur))
    cand["plan"]["picks"] = []
    if cur["plan"].get("picks") and fails(cand):
        cur = cand
    cur["minimised_schedule_runs"] = runs
    return cur


def load_known(prop_id):
    p = os.path.join(VERIF, "known_findings.json")
    if not os.path.exists(p):
        return []
    return [k for k in json.load(open(p)) if k["property"] == prop_id]
