"""Shipped journal / evtx inputs (the only ones available: /repo/logs). Several plain journals in
this sandbox are truncated to 0 bytes; their content is recovered from the shipped .xz copies."""
import lzma
import os

from build import REPO

_CACHE = {}

JOURNALS = {
    "u22x3": ("logs/programs/journal/Ubuntu22-user-1000x3.journal.xz", "xz"),
    "rhe91": ("logs/programs/journal/RHE_91_system.journal.xz", "xz"),
    "ubuntu16": ("logs/Ubuntu16/6c6ab73d82464b9493892c81fc732b3a/system.journal", None),
    "opensuse15": ("logs/OpenSUSE15/journal/f4e4621cbd954e73a519d0ca3e0d82c3/"
                   "system@29912846da1c4d1d8d50dd155c553bdc-0000000000005156-00060c85794a2d40.journal", None),
}
EVTX = {
    "noevents": ("logs/programs/evtx/NoEvents.evtx", None),
    "pnp": ("logs/programs/evtx/Microsoft-Windows-Kernel-PnP%4Configuration.evtx", None),
}


def load(name):
    if name in _CACHE:
        return _CACHE[name]
    rel, comp = (JOURNALS.get(name) or EVTX.get(name))
    data = open(os.path.join(REPO, rel), "rb").read()
    if comp == "xz":
        data = lzma.decompress(data)
    _CACHE[name] = data
    return data


def kind_of(name):
    return "journal" if name in JOURNALS else "evtx"
