#!/bin/bash
# Reach measurement (not a check, not registered): which lines of /repo/src do the quick tiers execute?
# Builds s4 (cfg s4_verif) with the nightly toolchain and -C instrument-coverage into target/cov, runs the named
# quick checks against it, merges the profiles and writes tools/coverage/<file>.txt (annotated source) and summary.txt.
# usage: tools/coverage.sh [ids...]   (default: all claimed properties)
cd "$(dirname "$0")/.." || exit 2
IDS=${@:-C01 C02 C03 C05 C06 C07 C08 C09 C10 C11 C12 C13 C14 C15 C17 C18 C19}
BIN=$HOME/.rustup/toolchains/nightly-x86_64-unknown-linux-gnu/lib/rustlib/x86_64-unknown-linux-gnu/bin
export S4SIM_TARGET=/verif/target/cov S4SIM_CARGO_TOOLCHAIN=+nightly S4SIM_EXTRA_RUSTFLAGS="-C instrument-coverage"
export S4SIM_NO_EVIDENCE=1
PROF=/dev/shm/s4cov; rm -rf $PROF; mkdir -p $PROF
export S4SIM_LLVM_PROFILE="$PROF/s4-%8m.profraw"
./check build || exit 2
for id in $IDS; do
  ./check $id quick 2>&1 | tail -1
done
$BIN/llvm-profdata merge -sparse $PROF/*.profraw -o $PROF/all.profdata || exit 2
OUT=tools/coverage; rm -rf $OUT; mkdir -p $OUT
$BIN/llvm-cov report $S4SIM_TARGET/verif/s4 -instr-profile=$PROF/all.profdata --ignore-filename-regex='(registry|rustc|/verif/rt)' > $OUT/summary.txt 2>/dev/null
for f in $(cd /repo && ls src/bin/s4.rs src/readers/*.rs src/data/*.rs src/printer/*.rs src/*.rs 2>/dev/null); do
  $BIN/llvm-cov show $S4SIM_TARGET/verif/s4 -instr-profile=$PROF/all.profdata /repo/$f --show-line-counts-or-regions=false 2>/dev/null > $OUT/$(echo $f | tr / _).txt
done
rm -rf $PROF
tail -40 $OUT/summary.txt
