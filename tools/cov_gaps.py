#!/usr/bin/env python3
"""print contiguous never-executed line ranges of an llvm-cov 'show' text file (tools/coverage/*.txt), skipping debug-only lines"""
import re, sys
skip = re.compile(r'^\s*(\}|\)|\]|//|def[onxñ]!|defñ|de_|dp[a-z]*!|debug_|e_err|e_wrn|#\[|else|\{|\);|\};|\},|_ =>|assert)')
for fn in sys.argv[1:]:
    rows = []
    for l in open(fn, errors='replace'):
        m = re.match(r'^\s*(\d+)\|\s*([0-9.kMG]*)\|(.*)$', l)
        if m:
            rows.append((int(m.group(1)), m.group(2), m.group(3)))
    out = []; cur = None
    for ln, cnt, txt in rows:
        if cnt == '0' and not skip.match(txt) and txt.strip():
            if cur and ln - cur[1] <= 3: cur[1] = ln; cur[2] += 1
            else:
                cur = [ln, ln, 1, txt.strip()[:110]]; out.append(cur)
        elif cnt not in ('0', ''):
            cur = None
    print("==", fn, sum(c[2] for c in out), "uncovered code lines in", len(out), "ranges")
    for a, b, n, t in out:
        if n >= int(1):
            print("  %5d-%-5d (%3d) %s" % (a, b, n, t))
