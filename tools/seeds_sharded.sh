#!/bin/bash
# regression over every saved seeded change in N shards side by side (each shard its own build directory); writes
# selftest_results/seeds.json. usage: tools/seeds_sharded.sh [N]
cd "$(dirname "$0")/.." || exit 2
N=${1:-3}
ids=( $(ls seeded | sort) )
mkdir -p selftest_results /dev/shm/s4seeds
pids=()
for k in $(seq 0 $((N-1))); do
  mine=()
  for i in "${!ids[@]}"; do [ $((i % N)) -eq $k ] && mine+=("${ids[$i]}"); done
  ( S4SIM_SEEDS_TARGET=seeds$k ./check selftest seeds "${mine[@]}" > /dev/shm/s4seeds/shard$k.log 2>&1 ) &
  pids+=($!)
done
wait "${pids[@]}"
cat /dev/shm/s4seeds/shard*.log | grep -E "^C[0-9]+[a-z]? " | sort > /dev/shm/s4seeds/all.txt
python3 - <<'PY'
import json, re
res = []
for ln in open('/dev/shm/s4seeds/all.txt'):
    sid, rest = ln.rstrip('\n').split(None, 1)
    res.append({"seed": sid, "property": sid[:3], "result": rest[:200]})
json.dump(res, open('selftest_results/seeds.json', 'w'), indent=1)
missed = [r for r in res if not r["result"].startswith("caught")]
print("seeds: %d changes, %d caught, %d not" % (len(res), len(res) - len(missed), len(missed)))
for r in missed: print("  ", r["seed"], r["result"])
PY
