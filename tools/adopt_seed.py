#!/usr/bin/env python3
"""tools/adopt_seed.py <id> "<what the checks did>"  -- copy a confirmed seeded change from /tmp/seeded/<id> into /verif/seeded/<id>
(patch.diff, demo.sh, meta.json + confirmation log), then remove its scratch worktree /tmp/wt-<id> with its build output."""
import json, os, shutil, subprocess, sys
sid, ran = sys.argv[1], sys.argv[2]
src, dst = "/tmp/seeded/" + sid, "/verif/seeded/" + sid
log = open(src + "/confirm.log").read().split("\n")
conf = [l for l in log if l.startswith("==") or l.startswith("exit=") or l.startswith("RESULT")]
ok = ("RESULT: OK" in "\n".join(conf)) and "exit=1" in conf and "exit=0" in conf
if not ok and "--force" not in sys.argv:
    print("NOT CONFIRMED:\n" + "\n".join(log)); sys.exit(1)
os.makedirs(dst, exist_ok=True)
m = json.load(open(src + "/meta.json"))
m["verif_ran"] = ran
m["confirmed"] = conf
json.dump(m, open(dst + "/meta.json", "w"), indent=1)
shutil.copy(src + "/patch.diff", dst + "/patch.diff")
shutil.copy(src + "/demo.sh", dst + "/demo.sh")
subprocess.run(["git", "-C", "/repo", "worktree", "remove", "--force", "/tmp/wt-" + sid])
shutil.rmtree("/tmp/wt-" + sid, ignore_errors=True)
print("adopted", sid)
