#!/bin/bash
# usage: run_tests.sh <worktree>      runs the pinned test suite in <worktree>, compares with the baseline
# prints "RESULT: OK ..." when every baseline-passing test still passes, "RESULT: BROKEN ..." otherwise
WT=$(readlink -f "$1"); [ -d "$WT" ] || { echo "no such worktree"; exit 2; }
export CARGO_NET_OFFLINE=true
cd "$WT" || exit 2
rm -f target/nextest/pb/junit.xml
cargo nextest run --workspace --no-fail-fast --tool-config-file pb:/w/lib/nextest.toml --profile pb --test-threads 6 --offline > "$WT/target_tests.log" 2>&1
J=$(find "$WT/target/nextest" -name junit.xml | head -1)
[ -f "$J" ] || { echo "RESULT: BROKEN (no junit.xml; build failed? see $WT/target_tests.log)"; tail -30 "$WT/target_tests.log"; exit 1; }
python3 - "$J" <<'PY'
import json, sys, xml.etree.ElementTree as ET
b = json.load(open('/root/.vp/BASELINE.json'))
stable = set(b['stable_pass']); known_fail = set(b.get('always_fail', []))
passed, failed = set(), set()
for tc in ET.parse(sys.argv[1]).getroot().iter('testcase'):
    tid = (tc.get('classname') or '') + '::' + (tc.get('name') or '')
    if tc.find('failure') is not None or tc.find('error') is not None or tc.find('flakyFailure') is not None or tc.find('rerunFailure') is not None: failed.add(tid)
    elif tc.find('skipped') is not None: pass
    else: passed.add(tid)
passed -= failed
missing = sorted(stable - passed)
newfail = sorted(failed - known_fail)
if missing:
    print("RESULT: BROKEN (%d baseline-passing tests no longer pass)" % len(missing))
    for m in missing[:40]: print("  ", m)
    sys.exit(1)
print("RESULT: OK (%d passed; %d failures, %s)" % (len(passed), len(failed), "all of them known baseline failures of this sandbox" if not newfail else "new failing non-baseline tests: %s" % newfail[:5]))
PY
