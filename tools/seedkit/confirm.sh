#!/bin/bash
# usage: confirm.sh C10f   -> re-runs suite and demo on both sides in the agent's worktree; writes /tmp/seeded/<id>/confirm.log
ID=$1; WT=/tmp/wt-$ID; S=/tmp/seeded/$ID
{
cd $WT || exit 2
git diff -- src > /tmp/seeded/$ID/patch.check.diff
if ! diff -q $S/patch.diff $S/patch.check.diff >/dev/null; then echo "NOTE: patch.diff differs from worktree diff; using worktree diff"; cp $S/patch.check.diff $S/patch.diff; fi
rm -f $S/patch.check.diff
echo "files: $(git diff --stat | tail -1)"
echo "== tests with change"
/tmp/seedkit/run_tests.sh $WT | head -12
echo "== demo with change (expect non-zero)"
bash $S/demo.sh $WT > $S/demo.with.log 2>&1; echo "exit=$?"; tail -1 $S/demo.with.log
git checkout -- src
echo "== demo without change (expect 0)"
bash $S/demo.sh $WT > $S/demo.without.log 2>&1; echo "exit=$?"; tail -1 $S/demo.without.log
git apply $S/patch.diff
echo "== done"
} > $S/confirm.log 2>&1
cat $S/confirm.log
