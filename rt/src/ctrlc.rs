//! Stand-in for the `ctrlc` crate: `set_handler` stores the closure; a simulated signal thread
//! runs it at the step(s) named by the plan (`signals=k[,k2…]`), i.e. a SIGINT can be delivered at
//! any scheduling step from handler registration to process exit, and repeatedly, as `ctrlc` does.

use std::fmt;

use crate::sched::{lock, sched_point, thread_begin, thread_finished, Op, TState, TID_SIG};

#[derive(Debug)]
pub enum Error {
    NoSuchSignal(i32),
    MultipleHandlers,
    System(std::io::Error),
}

impl fmt::Display for Error {
    fn fmt(&self, f: &mut fmt::Formatter<'_>) -> fmt::Result {
        write!(f, "Ctrl-C error: {:?}", self)
    }
}

impl std::error::Error for Error {}

static REGISTERED: std::sync::atomic::AtomicBool = std::sync::atomic::AtomicBool::new(false);

pub fn set_handler<F>(mut user_handler: F) -> Result<(), Error>
where
    F: FnMut() + 'static + Send,
{
    if REGISTERED.swap(true, std::sync::atomic::Ordering::SeqCst) {
        return Err(Error::MultipleHandlers);
    }
    let n_signals = {
        let mut g = lock();
        let s = g.as_mut().expect("s4_verif_rt::init() not called");
        let n = s.plan.signals.len();
        let line = format!("H {} handler_registered signals={}", s.steps, n);
        s.tr(&line);
        if n > 0 {
            s.threads[TID_SIG].state = TState::Pending(Op::SigWait);
        }
        n
    };
    if n_signals == 0 {
        // the handler can never run in this simulated run
        return Ok(());
    }
    let r = std::thread::Builder::new()
        .name("ctrl-c".into())
        .spawn(move || {
            // first delivery: wait for the baton exactly like a new thread does
            thread_begin_sig();
            for i in 0..n_signals {
                if i > 0 {
                    sched_point(Op::SigWait, |_| ());
                }
                {
                    let mut g = lock();
                    let s = g.as_mut().unwrap();
                    s.sig_next += 1;
                    let line = format!("G {} signal_delivered n={}", s.steps, i + 1);
                    s.tr(&line);
                }
                user_handler();
                {
                    let mut g = lock();
                    let s = g.as_mut().unwrap();
                    let line = format!("G {} handler_returned n={}", s.steps, i + 1);
                    s.tr(&line);
                    if i + 1 == n_signals {
                        s.sig_done_step = Some(s.steps);
                        if s.plan.post_rr {
                            s.policy = crate::sched::Policy::RoundRobin;
                        }
                    }
                }
            }
            thread_finished();
        });
    match r {
        Ok(_) => Ok(()),
        Err(e) => Err(Error::System(e)),
    }
}

fn thread_begin_sig() {
    thread_begin(TID_SIG);
}
