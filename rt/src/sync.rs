//! `RwLock` with the `std::sync::RwLock` surface s4 uses (`new`, `read`, `write`, guards that
//! `Deref`/`DerefMut`, `LockResult`), whose acquisitions are scheduling points.
//!
//! Model: any number of readers or one writer. No fairness or priority policy is built in: any
//! compatible waiter may be chosen by the scheduler, which over-approximates every OS policy.
//! The data lives in a real `std::sync::RwLock` that is only ever taken when the model has already
//! granted it, so it never blocks.

use std::ops::{Deref, DerefMut};
use std::sync::LockResult;

use crate::sched::{lock, sched_point, yield_after, LockMeta, Op};

pub struct RwLock<T> {
    id: usize,
    inner: std::sync::RwLock<T>,
}

pub struct RwLockReadGuard<'a, T> {
    id: usize,
    g: Option<std::sync::RwLockReadGuard<'a, T>>,
}

pub struct RwLockWriteGuard<'a, T> {
    id: usize,
    g: Option<std::sync::RwLockWriteGuard<'a, T>>,
}

impl<T> RwLock<T> {
    pub fn new(v: T) -> RwLock<T> {
        let id = {
            let mut g = lock();
            let s = g.as_mut().expect("s4_verif_rt::init() not called");
            s.locks.push(LockMeta::default());
            let id = s.locks.len() - 1;
            let line = format!("L {} lock={} type={}", s.steps, id, short_type::<T>());
            s.tr(&line);
            id
        };
        RwLock { id, inner: std::sync::RwLock::new(v) }
    }

    pub fn read(&self) -> LockResult<RwLockReadGuard<'_, T>> {
        let id = self.id;
        sched_point(Op::RdLock(id), |s| {
            s.locks[id].readers += 1;
        });
        let g = match self.inner.read() {
            Ok(g) => g,
            Err(p) => p.into_inner(),
        };
        Ok(RwLockReadGuard { id, g: Some(g) })
    }

    pub fn write(&self) -> LockResult<RwLockWriteGuard<'_, T>> {
        let id = self.id;
        sched_point(Op::WrLock(id), |s| {
            s.locks[id].writer = true;
        });
        let g = match self.inner.write() {
            Ok(g) => g,
            Err(p) => p.into_inner(),
        };
        Ok(RwLockWriteGuard { id, g: Some(g) })
    }
}

fn short_type<T>() -> String {
    let n = std::any::type_name::<T>();
    let mut out = String::new();
    // keep it short and free of spaces for the trace
    for c in n.chars() {
        if c == ' ' {
            continue;
        }
        out.push(c);
        if out.len() >= 60 {
            break;
        }
    }
    out
}

impl<'a, T> Deref for RwLockReadGuard<'a, T> {
    type Target = T;
    fn deref(&self) -> &T {
        self.g.as_ref().unwrap()
    }
}

impl<'a, T> Drop for RwLockReadGuard<'a, T> {
    fn drop(&mut self) {
        self.g.take();
        {
            let mut g = lock();
            if let Some(s) = g.as_mut() {
                let m = &mut s.locks[self.id];
                m.readers = m.readers.saturating_sub(1);
            }
        }
        if !std::thread::panicking() {
            yield_after("rdunlock");
        }
    }
}

impl<'a, T> Deref for RwLockWriteGuard<'a, T> {
    type Target = T;
    fn deref(&self) -> &T {
        self.g.as_ref().unwrap()
    }
}

impl<'a, T> DerefMut for RwLockWriteGuard<'a, T> {
    fn deref_mut(&mut self) -> &mut T {
        self.g.as_mut().unwrap()
    }
}

impl<'a, T> Drop for RwLockWriteGuard<'a, T> {
    fn drop(&mut self) {
        self.g.take();
        {
            let mut g = lock();
            if let Some(s) = g.as_mut() {
                s.locks[self.id].writer = false;
            }
        }
        if !std::thread::panicking() {
            yield_after("wrunlock");
        }
    }
}
