//! The baton scheduler.
//!
//! Every simulated thread is a real OS thread. Exactly one holds the baton (`Sched::current`).
//! A thread reaching an intercepted operation calls [`sched_point`]: it publishes the operation,
//! the scheduler computes the set of threads whose published operation is *enabled*, picks one
//! according to the run's policy (all randomness from one xoshiro PRNG seeded by the plan), logs
//! the decision and hands the baton over. The code between two scheduling points of a thread is
//! one atomic *step*.

use std::cell::Cell;
use std::fs::File;
use std::io::Write;
use std::sync::{Condvar, Mutex, MutexGuard};

thread_local! {
    pub(crate) static TID: Cell<usize> = const { Cell::new(usize::MAX) };
}

pub(crate) static SCHED: Mutex<Option<Sched>> = Mutex::new(None);
pub(crate) static CV: Condvar = Condvar::new();

/// reserved thread ids
pub const TID_MAIN: usize = 0;
pub const TID_SIG: usize = 1;

pub const EXIT_DEADLOCK: i32 = 99;
pub const EXIT_LIVELOCK: i32 = 98;
pub const EXIT_NOEXIT_AFTER_SIGNAL: i32 = 96;
pub const EXIT_HARNESS: i32 = 95;
/// a planned SIGINT arrived while no handler was installed: the default action ended the process
pub const EXIT_SIGINT_DEFAULT_ACTION: i32 = 97;

extern "C" {
    fn _exit(code: i32) -> !;
    fn atexit(cb: extern "C" fn()) -> i32;
}

#[derive(Clone, Debug)]
pub enum Op {
    Start,
    /// always-enabled point after an operation (pre-emption between the operation and what follows)
    Yield(&'static str),
    Send(usize),
    Select(Vec<usize>),
    /// select / recv with a deadline (or non-blocking): see `Sched::timeouts_left`
    TimedSelect(Vec<usize>),
    /// send with a deadline (or non-blocking)
    TimedSend(usize),
    RdLock(usize),
    WrLock(usize),
    Join(usize),
    Io(u64),
    Point(&'static str),
    SigWait,
    Exit,
}

impl Op {
    fn label(&self) -> String {
        match self {
            Op::Start => "start".into(),
            Op::Yield(s) => format!("y:{}", s),
            Op::Send(c) => format!("send:{}", c),
            Op::Select(cs) => {
                let v: Vec<String> = cs.iter().map(|c| c.to_string()).collect();
                format!("select:{}", v.join("+"))
            }
            Op::TimedSelect(cs) => {
                let v: Vec<String> = cs.iter().map(|c| c.to_string()).collect();
                format!("tselect:{}", v.join("+"))
            }
            Op::TimedSend(c) => format!("tsend:{}", c),
            Op::RdLock(l) => format!("rdlock:{}", l),
            Op::WrLock(l) => format!("wrlock:{}", l),
            Op::Join(t) => format!("join:{}", t),
            Op::Io(b) => format!("io:{}", b),
            Op::Point(s) => format!("pt:{}", s),
            Op::SigWait => "sig_deliver".into(),
            Op::Exit => "exit".into(),
        }
    }
}

#[derive(Clone, Debug)]
pub(crate) enum TState {
    /// reserved slot, thread never created (e.g. the signal thread without a planned signal)
    Absent,
    Running,
    Pending(Op),
    Finished,
}

pub(crate) struct ThreadSt {
    pub state: TState,
    pub prio: u64,
}

#[derive(Clone, Debug, Default)]
pub(crate) struct ChanMeta {
    pub len: usize,
    pub cap: usize,
    pub senders: usize,
    pub rx_alive: bool,
}

#[derive(Clone, Debug, Default)]
pub(crate) struct LockMeta {
    pub readers: usize,
    pub writer: bool,
}

#[derive(Clone, Debug, PartialEq)]
pub(crate) enum Policy {
    Random,
    Pct,
    /// thread `k` runs only when nothing else can
    Starve(usize),
    /// thread `k` runs whenever it can
    First(usize),
    RoundRobin,
    /// explicit choice list, then lowest enabled id
    Replay,
    /// lowest enabled id (default without a plan)
    Lowest,
}

#[derive(Clone, Debug, PartialEq)]
pub(crate) enum SelectPick {
    Random,
    Lowest,
    Highest,
}

pub(crate) struct Plan {
    pub seed: u64,
    pub policy: Policy,
    /// probability (per mille) of staying on the thread that ran last when it is still enabled
    pub stick: u64,
    pub pct_depth: usize,
    pub pct_steps: u64,
    pub select_pick: SelectPick,
    pub signals: Vec<u64>,
    pub budget: u64,
    pub post_budget: u64,
    pub post_rr: bool,
    /// how many deadlines may expire while other threads could still run (a slow peer); beyond that a deadline
    /// expires only when nothing else can run (the simulated clock jumps to it)
    pub timeouts: u64,
    /// readers queue behind a waiting writer (as std's RwLock does on Linux)
    pub writer_pref: bool,
    pub now: Option<(i64, u32)>,
    pub stdin_delay: Option<i64>,
    /// `append=<step>:<path>:<hex>`: another process appends these bytes to that file when the run reaches that step
    pub append: Option<(u64, String, Vec<u8>)>,
    pub choices: Vec<usize>,
    pub picks: Vec<usize>,
    pub trace_path: Option<String>,
}

impl Default for Plan {
    fn default() -> Self {
        Plan {
            seed: 0,
            policy: Policy::Lowest,
            stick: 0,
            pct_depth: 0,
            pct_steps: 1000,
            select_pick: SelectPick::Lowest,
            signals: vec![],
            budget: 50_000_000,
            post_budget: 50_000_000,
            post_rr: true,
            timeouts: 1,
            writer_pref: false,
            now: None,
            stdin_delay: None,
            append: None,
            choices: vec![],
            picks: vec![],
            trace_path: None,
        }
    }
}

fn parse_list<T: std::str::FromStr>(v: &str) -> Vec<T> {
    v.split(',')
        .filter(|s| !s.is_empty())
        .filter_map(|s| s.trim().parse::<T>().ok())
        .collect()
}

impl Plan {
    fn parse(text: &str) -> Plan {
        let mut p = Plan::default();
        for line in text.lines() {
            let line = line.trim();
            if line.is_empty() || line.starts_with('#') {
                continue;
            }
            let (k, v) = match line.split_once('=') {
                Some(kv) => kv,
                None => continue,
            };
            match k {
                "seed" => p.seed = v.parse().unwrap_or(0),
                "policy" => {
                    p.policy = if v == "random" {
                        Policy::Random
                    } else if v == "pct" {
                        Policy::Pct
                    } else if v == "rr" {
                        Policy::RoundRobin
                    } else if v == "replay" {
                        Policy::Replay
                    } else if v == "lowest" {
                        Policy::Lowest
                    } else if let Some(k) = v.strip_prefix("starve:") {
                        Policy::Starve(k.parse().unwrap_or(0))
                    } else if let Some(k) = v.strip_prefix("first:") {
                        Policy::First(k.parse().unwrap_or(0))
                    } else {
                        harness_error(&format!("unknown policy {:?}", v))
                    }
                }
                "stick" => p.stick = v.parse().unwrap_or(0),
                "pct_depth" => p.pct_depth = v.parse().unwrap_or(0),
                "pct_steps" => p.pct_steps = v.parse().unwrap_or(1000),
                "select_pick" => {
                    p.select_pick = match v {
                        "random" => SelectPick::Random,
                        "lowest" => SelectPick::Lowest,
                        "highest" => SelectPick::Highest,
                        _ => harness_error(&format!("unknown select_pick {:?}", v)),
                    }
                }
                "signals" => p.signals = parse_list(v),
                "budget" => p.budget = v.parse().unwrap_or(p.budget),
                "post_budget" => p.post_budget = v.parse().unwrap_or(p.post_budget),
                "post_rr" => p.post_rr = v != "0",
                "timeouts" => p.timeouts = v.parse().unwrap_or(p.timeouts),
                "writer_pref" => p.writer_pref = v != "0",
                "now" => {
                    let (s, n) = v.split_once('.').unwrap_or((v, "0"));
                    let mut ns = String::from(n);
                    while ns.len() < 9 {
                        ns.push('0');
                    }
                    ns.truncate(9);
                    if let (Ok(s), Ok(n)) = (s.parse::<i64>(), ns.parse::<u32>()) {
                        p.now = Some((s, n));
                    }
                }
                "stdin_delay" => p.stdin_delay = v.parse().ok(),
                "append" => {
                    let mut it = v.splitn(3, ':');
                    if let (Some(k), Some(path), Some(hex)) = (it.next(), it.next(), it.next()) {
                        if let Ok(k) = k.parse::<u64>() {
                            let bytes: Vec<u8> = (0..hex.len() / 2).filter_map(|i| u8::from_str_radix(&hex[2 * i..2 * i + 2], 16).ok()).collect();
                            p.append = Some((k, path.to_string(), bytes));
                        }
                    }
                }
                "choices" => p.choices = parse_list(v),
                "picks" => p.picks = parse_list(v),
                "trace" => p.trace_path = Some(v.to_string()),
                _ => {}
            }
        }
        p.signals.sort();
        p
    }
}

fn harness_error(msg: &str) -> ! {
    eprintln!("S4SIM-HARNESS-ERROR: {}", msg);
    unsafe { _exit(EXIT_HARNESS) }
}

/// xoshiro256** seeded through splitmix64
pub(crate) struct Rng {
    s: [u64; 4],
}

impl Rng {
    pub fn new(seed: u64) -> Rng {
        let mut z = seed;
        let mut s = [0u64; 4];
        for x in s.iter_mut() {
            z = z.wrapping_add(0x9E3779B97F4A7C15);
            let mut y = z;
            y = (y ^ (y >> 30)).wrapping_mul(0xBF58476D1CE4E5B9);
            y = (y ^ (y >> 27)).wrapping_mul(0x94D049BB133111EB);
            *x = y ^ (y >> 31);
        }
        Rng { s }
    }
    pub fn next(&mut self) -> u64 {
        let r = self.s[1].wrapping_mul(5).rotate_left(7).wrapping_mul(9);
        let t = self.s[1] << 17;
        self.s[2] ^= self.s[0];
        self.s[3] ^= self.s[1];
        self.s[1] ^= self.s[2];
        self.s[0] ^= self.s[3];
        self.s[2] ^= t;
        self.s[3] = self.s[3].rotate_left(45);
        r
    }
    pub fn below(&mut self, n: u64) -> u64 {
        if n <= 1 {
            0
        } else {
            self.next() % n
        }
    }
}

pub struct Sched {
    pub(crate) threads: Vec<ThreadSt>,
    pub(crate) current: usize,
    pub(crate) steps: u64,
    pub(crate) chans: Vec<ChanMeta>,
    pub(crate) locks: Vec<LockMeta>,
    pub(crate) rng: Rng,
    pub(crate) plan: Plan,
    pub(crate) policy: Policy,
    pub(crate) last: usize,
    pub(crate) sig_next: usize,
    pub(crate) sig_done_step: Option<u64>,
    pub(crate) exited: bool,
    pub(crate) choice_ix: usize,
    pub(crate) pick_ix: usize,
    pub(crate) pct_points: Vec<u64>,
    pub(crate) pct_low: u64,
    pub(crate) timeouts_left: u64,
    trace_file: Option<File>,
    trace_buf: Vec<u8>,
}

impl Sched {
    pub(crate) fn tr(&mut self, line: &str) {
        if self.trace_file.is_none() {
            return;
        }
        self.trace_buf.extend_from_slice(line.as_bytes());
        self.trace_buf.push(b'\n');
        if self.trace_buf.len() > (1 << 16) {
            self.flush();
        }
    }

    pub(crate) fn flush(&mut self) {
        if let Some(f) = self.trace_file.as_mut() {
            let _ = f.write_all(&self.trace_buf);
            let _ = f.flush();
        }
        self.trace_buf.clear();
    }

    pub(crate) fn new_thread(&mut self) -> usize {
        let prio = 1_000_000 + self.rng.below(1_000_000_000);
        self.threads.push(ThreadSt { state: TState::Pending(Op::Start), prio });
        self.threads.len() - 1
    }

    fn is_enabled(&self, op: &Op) -> bool {
        match op {
            Op::Send(c) => {
                let m = &self.chans[*c];
                !m.rx_alive || m.len < m.cap
            }
            Op::Select(cs) => cs.iter().any(|c| {
                let m = &self.chans[*c];
                m.len > 0 || m.senders == 0
            }),
            Op::TimedSelect(cs) => self.timeouts_left > 0 || self.select_ready(cs),
            Op::TimedSend(c) => self.timeouts_left > 0 || self.send_ready(*c),
            Op::RdLock(l) => {
                // std's futex RwLock does not admit new readers while a writer waits; under `writer_pref` the model
                // does the same (a thread that re-acquires a read guard it already holds then deadlocks, as it may
                // in production)
                !self.locks[*l].writer
                    && !(self.plan.writer_pref
                        && self.threads.iter().any(|t| matches!(&t.state, TState::Pending(Op::WrLock(w)) if w == l)))
            }
            Op::WrLock(l) => !self.locks[*l].writer && self.locks[*l].readers == 0,
            Op::Join(t) => matches!(self.threads[*t].state, TState::Finished),
            Op::SigWait => {
                self.sig_next < self.plan.signals.len() && self.steps >= self.plan.signals[self.sig_next]
            }
            _ => true,
        }
    }

    pub(crate) fn select_ready(&self, cs: &[usize]) -> bool {
        cs.iter().any(|c| {
            let m = &self.chans[*c];
            m.len > 0 || m.senders == 0
        })
    }

    pub(crate) fn send_ready(&self, c: usize) -> bool {
        let m = &self.chans[c];
        !m.rx_alive || m.len < m.cap
    }

    /// a timed operation was scheduled while it cannot complete: its deadline expires
    pub(crate) fn timeout_fires(&mut self, label: &str) {
        self.timeouts_left = self.timeouts_left.saturating_sub(1);
        let line = format!("O {} timeout {} left={}", self.steps, label, self.timeouts_left);
        self.tr(&line);
    }

    fn waiting_dump(&self) -> String {
        let mut v = vec![];
        for (tid, t) in self.threads.iter().enumerate() {
            if let TState::Pending(op) = &t.state {
                v.push(format!("T{}:{}", tid, op.label()));
            }
        }
        v.join(" ")
    }

    fn die(&mut self, what: &str, code: i32) -> ! {
        let w = self.waiting_dump();
        let line = format!("Z {} {} waiting=[{}]", self.steps, what, w);
        self.tr(&line);
        self.flush();
        eprintln!("S4SIM: {}", line);
        unsafe { _exit(code) }
    }

    /// decide who runs next; sets `self.current`.
    pub(crate) fn pick_next(&mut self) {
        if self.exited {
            return;
        }
        if self.sig_next < self.plan.signals.len()
            && self.steps >= self.plan.signals[self.sig_next]
            && matches!(self.threads[TID_SIG].state, TState::Absent)
        {
            // SIGINT while no handler is installed: the default action ends the process here and now -- no
            // destructor, no clean-up code runs (as when Ctrl-C is typed before, or without, handler registration)
            let line = format!("G {} signal_default_action", self.steps);
            self.tr(&line);
            self.flush();
            unsafe { _exit(EXIT_SIGINT_DEFAULT_ACTION) }
        }
        let mut enabled: Vec<usize> = Vec::with_capacity(self.threads.len());
        let mut blocked: Vec<String> = Vec::new();
        for (tid, t) in self.threads.iter().enumerate() {
            if let TState::Pending(op) = &t.state {
                if self.is_enabled(op) {
                    enabled.push(tid);
                } else if self.trace_file.is_some() && !matches!(op, Op::SigWait) {
                    blocked.push(format!("T{}:{}", tid, op.label()));
                }
            }
        }
        if enabled.is_empty() {
            // nothing can run: the simulated clock jumps to the earliest deadline (lowest thread id), if there is one
            for (tid, t) in self.threads.iter().enumerate() {
                if let TState::Pending(Op::TimedSelect(_)) | TState::Pending(Op::TimedSend(_)) = &t.state {
                    enabled.push(tid);
                    break;
                }
            }
        }
        if enabled.is_empty() {
            self.die("DEADLOCK", EXIT_DEADLOCK);
        }
        self.steps += 1;
        if let Some((k, path, bytes)) = self.plan.append.take() {
            if self.steps as u64 >= k {
                // a writer outside the program: the log grows while it is being read
                use std::io::Write;
                if let Ok(mut f) = std::fs::OpenOptions::new().append(true).open(&path) {
                    let _ = f.write_all(&bytes);
                }
                let line = format!("G {} world_append {} bytes", self.steps, bytes.len());
                self.tr(&line);
            } else {
                self.plan.append = Some((k, path, bytes));
            }
        }
        if self.steps > self.plan.budget {
            self.die("LIVELOCK", EXIT_LIVELOCK);
        }
        if let Some(d) = self.sig_done_step {
            if self.steps - d > self.plan.post_budget {
                self.die("NOEXIT_AFTER_SIGNAL", EXIT_NOEXIT_AFTER_SIGNAL);
            }
        }
        let chosen: usize;
        let mut branch = false;
        let sig_forced = enabled.contains(&TID_SIG)
            && matches!(self.threads[TID_SIG].state, TState::Pending(Op::SigWait));
        if sig_forced && sigint_disposition() == 1 {
            // the program has put SIGINT back to its default disposition (recorded by the preload shim): this Ctrl-C ends the
            // process here and now, no handler, no clean-up
            let line = format!("G {} signal_default_action disposition_reset", self.steps);
            self.tr(&line);
            self.flush();
            unsafe { _exit(EXIT_SIGINT_DEFAULT_ACTION) }
        }
        if sig_forced {
            chosen = TID_SIG;
        } else if enabled.len() == 1 {
            chosen = enabled[0];
        } else {
            branch = true;
            chosen = self.choose(&enabled);
        }
        self.last = chosen;
        self.current = chosen;
        if self.trace_file.is_some() {
            let op = match &self.threads[chosen].state {
                TState::Pending(op) => op.label(),
                _ => String::from("?"),
            };
            let en: Vec<String> = enabled.iter().map(|t| t.to_string()).collect();
            let line = format!(
                "S {} T{} {} en={}{}{}",
                self.steps,
                chosen,
                op,
                en.join(","),
                if branch { " B" } else { "" },
                if blocked.is_empty() { String::new() } else { format!(" bl={}", blocked.join(",")) }
            );
            self.tr(&line);
        }
    }

    fn choose(&mut self, enabled: &[usize]) -> usize {
        match self.policy.clone() {
            Policy::Lowest => enabled[0],
            Policy::Replay => {
                let c = if self.choice_ix < self.plan.choices.len() {
                    let c = self.plan.choices[self.choice_ix];
                    if enabled.contains(&c) {
                        c
                    } else {
                        enabled[0]
                    }
                } else {
                    enabled[0]
                };
                self.choice_ix += 1;
                c
            }
            Policy::RoundRobin => {
                let last = self.last;
                match enabled.iter().find(|t| **t > last) {
                    Some(t) => *t,
                    None => enabled[0],
                }
            }
            Policy::Random => self.random_sticky(enabled),
            Policy::Starve(k) => {
                let rest: Vec<usize> = enabled.iter().copied().filter(|t| *t != k).collect();
                if rest.is_empty() {
                    k
                } else {
                    self.random_sticky(&rest)
                }
            }
            Policy::First(k) => {
                if enabled.contains(&k) {
                    k
                } else {
                    self.random_sticky(enabled)
                }
            }
            Policy::Pct => {
                let mut best = enabled[0];
                for t in enabled {
                    if self.threads[*t].prio > self.threads[best].prio {
                        best = *t;
                    }
                }
                if self.pct_points.contains(&self.steps) {
                    // change point: the running favourite drops below everyone else
                    self.pct_low = self.pct_low.saturating_sub(1);
                    self.threads[best].prio = self.pct_low;
                    let mut b2 = enabled[0];
                    for t in enabled {
                        if self.threads[*t].prio > self.threads[b2].prio {
                            b2 = *t;
                        }
                    }
                    best = b2;
                }
                best
            }
        }
    }

    fn random_sticky(&mut self, enabled: &[usize]) -> usize {
        if self.plan.stick > 0 && enabled.contains(&self.last) && self.rng.below(1000) < self.plan.stick {
            return self.last;
        }
        enabled[self.rng.below(enabled.len() as u64) as usize]
    }

    /// choose among `n` ready alternatives of a select (returns index into the ready list)
    pub(crate) fn pick_select(&mut self, n: usize) -> usize {
        if n <= 1 {
            return 0;
        }
        if self.policy == Policy::Replay {
            let p = if self.pick_ix < self.plan.picks.len() {
                self.plan.picks[self.pick_ix] % n
            } else {
                0
            };
            self.pick_ix += 1;
            return p;
        }
        match self.plan.select_pick {
            SelectPick::Lowest => 0,
            SelectPick::Highest => n - 1,
            SelectPick::Random => self.rng.below(n as u64) as usize,
        }
    }
}

pub(crate) fn lock() -> MutexGuard<'static, Option<Sched>> {
    match SCHED.lock() {
        Ok(g) => g,
        Err(p) => p.into_inner(),
    }
}

extern "C" fn at_exit_flush() {
    if let Ok(mut g) = SCHED.try_lock() {
        if let Some(s) = g.as_mut() {
            s.flush();
        }
    }
}

/// First statement of `main()`: registers the calling thread as sim-thread 0 and loads the plan
/// named by `S4SIM_PLAN` (absent: lowest-id-first policy, no trace, no signal, real clock).
pub fn init() {
    let plan = match std::env::var("S4SIM_PLAN") {
        Ok(path) => match std::fs::read_to_string(&path) {
            Ok(text) => Plan::parse(&text),
            Err(e) => harness_error(&format!("cannot read plan {:?}: {}", path, e)),
        },
        Err(_) => Plan::default(),
    };
    let trace_file = match &plan.trace_path {
        Some(p) => match File::create(p) {
            Ok(f) => Some(f),
            Err(e) => harness_error(&format!("cannot create trace {:?}: {}", p, e)),
        },
        None => None,
    };
    let mut rng = Rng::new(plan.seed);
    let mut pct_points = vec![];
    if plan.policy == Policy::Pct {
        for _ in 0..plan.pct_depth {
            pct_points.push(1 + rng.below(plan.pct_steps.max(1)));
        }
    }
    let policy = plan.policy.clone();
    let timeouts_left = plan.timeouts;
    let mut s = Sched {
        threads: vec![],
        current: TID_MAIN,
        steps: 0,
        chans: vec![],
        locks: vec![],
        rng,
        plan,
        policy,
        last: TID_MAIN,
        sig_next: 0,
        sig_done_step: None,
        exited: false,
        choice_ix: 0,
        pick_ix: 0,
        pct_points,
        pct_low: 1000,
        timeouts_left,
        trace_file,
        trace_buf: Vec::with_capacity(1 << 16),
    };
    let p0 = 1_000_000 + s.rng.below(1_000_000_000);
    s.threads.push(ThreadSt { state: TState::Running, prio: p0 });
    s.threads.push(ThreadSt { state: TState::Absent, prio: 0 });
    TID.with(|t| t.set(TID_MAIN));
    *lock() = Some(s);
    unsafe {
        atexit(at_exit_flush);
    }
    let prev = std::panic::take_hook();
    std::panic::set_hook(Box::new(move |info| {
        if let Ok(mut g) = SCHED.try_lock() {
            if let Some(s) = g.as_mut() {
                let tid = TID.with(|t| t.get());
                let line = format!("Z {} PANIC thread=T{}", s.steps, tid as isize);
                s.tr(&line);
                s.flush();
            }
        }
        prev(info);
    }));
}

/// The scheduling point. Publishes `op`, lets the scheduler decide, blocks until this thread is
/// chosen, then runs `effect` atomically (under the scheduler lock).
pub(crate) fn sched_point<R>(op: Op, effect: impl FnOnce(&mut Sched) -> R) -> R {
    let me = TID.with(|t| t.get());
    let mut g = lock();
    if g.is_none() {
        drop(g);
        harness_error("scheduling point before s4_verif_rt::init()");
    }
    if me == usize::MAX || g.as_ref().unwrap().exited {
        // not a simulated thread (or the process is past its exit decision): pass through
        return effect(g.as_mut().unwrap());
    }
    {
        let s = g.as_mut().unwrap();
        s.threads[me].state = TState::Pending(op);
        s.pick_next();
    }
    CV.notify_all();
    while g.as_ref().unwrap().current != me {
        g = match CV.wait(g) {
            Ok(g) => g,
            Err(p) => p.into_inner(),
        };
    }
    let s = g.as_mut().unwrap();
    s.threads[me].state = TState::Running;
    effect(s)
}

/// Called by the thread wrappers when a simulated thread's closure has returned.
pub(crate) fn thread_finished() {
    let me = TID.with(|t| t.get());
    let mut g = lock();
    let s = g.as_mut().unwrap();
    if s.exited {
        return;
    }
    s.threads[me].state = TState::Finished;
    let line = format!("F {} T{} end", s.steps, me);
    s.tr(&line);
    s.pick_next();
    drop(g);
    CV.notify_all();
}

/// Called by a freshly created simulated thread: wait for the baton.
pub(crate) fn thread_begin(tid: usize) {
    TID.with(|t| t.set(tid));
    let mut g = lock();
    while g.as_ref().unwrap().current != tid
        || !matches!(g.as_ref().unwrap().threads[tid].state, TState::Pending(_))
    {
        g = match CV.wait(g) {
            Ok(g) => g,
            Err(p) => p.into_inner(),
        };
    }
    g.as_mut().unwrap().threads[tid].state = TState::Running;
}

/// generic always-enabled scheduling point with a label
pub fn point(label: &'static str) {
    sched_point(Op::Point(label), |_| ());
}

/// always-enabled point placed after an operation
pub(crate) fn yield_after(label: &'static str) {
    sched_point(Op::Yield(label), |_| ());
}

/// scheduling point before a physical block read (H8)
pub fn io_point(blockoffset: u64) {
    sched_point(Op::Io(blockoffset), |_| ());
}

/// Last statement of `main()`: the exit decision is itself a scheduling point (other threads
/// may run before it), after which nothing is scheduled any more: parked threads die with the
/// process exactly as in production.
pub fn process_exit(code: i32) {
    sched_point(Op::Exit, |s| {
        let after = match s.sig_done_step {
            Some(d) => (s.steps - d) as i64,
            None => -1,
        };
        let line = format!("X {} exit code={} steps_after_signal={}", s.steps, code, after);
        s.tr(&line);
        s.exited = true;
        s.flush();
    });
}

/// what the program last did to SIGINT's disposition, as recorded by the preload shim (0 when the shim is absent)
fn sigint_disposition() -> i32 {
    extern "C" {
        fn dlsym(handle: *mut std::ffi::c_void, symbol: *const std::os::raw::c_char) -> *mut std::ffi::c_void;
    }
    unsafe {
        let p = dlsym(std::ptr::null_mut(), b"s4sim_sigint_disposition\0".as_ptr() as *const std::os::raw::c_char);
        if p.is_null() {
            return 0;
        }
        let f: extern "C" fn() -> i32 = std::mem::transmute(p);
        f()
    }
}
