//! API-compatible stand-in for the part of `crossbeam_channel` that s4 uses:
//! `bounded`, `Sender::send`, `Receiver`, `Receiver::len`, `Select::{new, recv, select}`,
//! `SelectedOperation::{index, recv}`, `RecvError`, `SendError`.
//!
//! Model: FIFO queue with the capacity the caller passes; `send` blocks while the queue is full and
//! the receiver is alive; a `Select` is ready when any registered receiver is non-empty or
//! disconnected, and *which* ready receiver wins is a scheduler decision (crossbeam picks one at
//! random in production).

use std::collections::VecDeque;
use std::fmt;
use std::sync::{Arc, Mutex};

use crate::sched::{sched_point, yield_after, lock, Op, ChanMeta};

struct Inner<T> {
    id: usize,
    q: Mutex<VecDeque<T>>,
}

pub struct Sender<T> {
    inner: Arc<Inner<T>>,
}

pub struct Receiver<T> {
    inner: Arc<Inner<T>>,
}

#[derive(PartialEq, Eq, Clone, Copy)]
pub struct SendError<T>(pub T);

impl<T> fmt::Debug for SendError<T> {
    fn fmt(&self, f: &mut fmt::Formatter<'_>) -> fmt::Result {
        "SendError(..)".fmt(f)
    }
}

impl<T> fmt::Display for SendError<T> {
    fn fmt(&self, f: &mut fmt::Formatter<'_>) -> fmt::Result {
        "sending on a disconnected channel".fmt(f)
    }
}

#[derive(PartialEq, Eq, Clone, Copy, Debug)]
pub struct RecvError;

impl fmt::Display for RecvError {
    fn fmt(&self, f: &mut fmt::Formatter<'_>) -> fmt::Result {
        "receiving on an empty and disconnected channel".fmt(f)
    }
}

impl std::error::Error for RecvError {}

pub fn bounded<T>(cap: usize) -> (Sender<T>, Receiver<T>) {
    let id = {
        let mut g = lock();
        let s = g.as_mut().expect("s4_verif_rt::init() not called");
        s.chans.push(ChanMeta { len: 0, cap, senders: 1, rx_alive: true });
        let id = s.chans.len() - 1;
        let line = format!("C {} chan={} cap={}", s.steps, id, cap);
        s.tr(&line);
        id
    };
    let inner = Arc::new(Inner { id, q: Mutex::new(VecDeque::with_capacity(cap)) });
    (Sender { inner: inner.clone() }, Receiver { inner })
}

impl<T> Sender<T> {
    pub fn send(&self, msg: T) -> Result<(), SendError<T>> {
        let id = self.inner.id;
        let r = sched_point(Op::Send(id), |s| {
            if !s.chans[id].rx_alive {
                return Err(SendError(msg));
            }
            self.inner.q.lock().unwrap().push_back(msg);
            s.chans[id].len += 1;
            Ok(())
        });
        yield_after("sent");
        r
    }
}

impl<T> Clone for Sender<T> {
    fn clone(&self) -> Self {
        let mut g = lock();
        if let Some(s) = g.as_mut() {
            s.chans[self.inner.id].senders += 1;
        }
        Sender { inner: self.inner.clone() }
    }
}

impl<T> Drop for Sender<T> {
    fn drop(&mut self) {
        let mut g = lock();
        if let Some(s) = g.as_mut() {
            let m = &mut s.chans[self.inner.id];
            m.senders = m.senders.saturating_sub(1);
            if m.senders == 0 {
                let line = format!("C {} chan={} senders_gone", s.steps, self.inner.id);
                s.tr(&line);
            }
        }
    }
}

impl<T> fmt::Debug for Sender<T> {
    fn fmt(&self, f: &mut fmt::Formatter<'_>) -> fmt::Result {
        write!(f, "Sender {{ chan: {} }}", self.inner.id)
    }
}

impl<T> Receiver<T> {
    pub fn len(&self) -> usize {
        self.inner.q.lock().unwrap().len()
    }
    pub fn is_empty(&self) -> bool {
        self.len() == 0
    }
}

impl<T> Drop for Receiver<T> {
    fn drop(&mut self) {
        // as crossbeam does: disconnect, then discard what is still queued
        let drained: Vec<T> = {
            let mut g = lock();
            if let Some(s) = g.as_mut() {
                let m = &mut s.chans[self.inner.id];
                m.rx_alive = false;
                m.len = 0;
                let line = format!("C {} chan={} receiver_gone", s.steps, self.inner.id);
                s.tr(&line);
            }
            self.inner.q.lock().unwrap().drain(..).collect()
        };
        // drop the messages outside the scheduler lock (their destructors may be arbitrary)
        drop(drained);
    }
}

impl<T> fmt::Debug for Receiver<T> {
    fn fmt(&self, f: &mut fmt::Formatter<'_>) -> fmt::Result {
        write!(f, "Receiver {{ chan: {} }}", self.inner.id)
    }
}

/// The subset of `crossbeam_channel::Select` s4 uses. Only channel ids are kept, so no borrow
/// of the receivers is held (crossbeam's `Select<'a>` borrows them; s4 names the type without a
/// lifetime, which is accepted for both).
pub struct Select {
    chans: Vec<usize>,
}

pub struct SelectedOperation {
    index: usize,
    chan: usize,
}

impl Select {
    #[allow(clippy::new_without_default)]
    pub fn new() -> Select {
        Select { chans: Vec::new() }
    }

    pub fn recv<T>(&mut self, r: &Receiver<T>) -> usize {
        self.chans.push(r.inner.id);
        self.chans.len() - 1
    }

    pub fn select(&mut self) -> SelectedOperation {
        if self.chans.is_empty() {
            panic!("no operations have been added to `Select`");
        }
        let chans = self.chans.clone();
        sched_point(Op::Select(chans.clone()), |s| {
            let ready: Vec<usize> = (0..chans.len())
                .filter(|i| {
                    let m = &s.chans[chans[*i]];
                    m.len > 0 || m.senders == 0
                })
                .collect();
            let k = s.pick_select(ready.len());
            let index = ready[k];
            if ready.len() > 1 {
                let line = format!("K {} pick={}/{} chan={}", s.steps, k, ready.len(), chans[index]);
                s.tr(&line);
            }
            SelectedOperation { index, chan: chans[index] }
        })
    }
}

impl SelectedOperation {
    pub fn index(&self) -> usize {
        self.index
    }

    pub fn recv<T>(self, r: &Receiver<T>) -> Result<T, RecvError> {
        assert_eq!(
            r.inner.id, self.chan,
            "passed a receiver that wasn't selected"
        );
        let id = self.chan;
        let res = {
            let mut g = lock();
            let s = g.as_mut().unwrap();
            let v = r.inner.q.lock().unwrap().pop_front();
            match v {
                Some(v) => {
                    s.chans[id].len -= 1;
                    Ok(v)
                }
                None => Err(RecvError),
            }
        };
        yield_after("recvd");
        res
    }
}
