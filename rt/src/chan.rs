//! API-compatible stand-in for the part of `crossbeam_channel` that s4 uses:
//! `bounded`, `Sender::send`, `Receiver`, `Receiver::len`, `Select::{new, recv, select}`,
//! `SelectedOperation::{index, recv}`, `RecvError`, `SendError` -- plus the neighbouring calls a change to s4
//! is likely to reach for (`unbounded`, `recv`, `try_recv`, `recv_timeout`, `try_send`, `send_timeout`,
//! `Select::{select_timeout, try_select}`, `len`/`is_empty`/`is_full`/`capacity`, `iter`) so that such a
//! change still builds under the simulator.
//!
//! Deadlines: a timed or non-blocking call that cannot complete when its thread is scheduled *times out*. While
//! the plan's `timeouts` budget lasts it may be scheduled although other threads could run (a slow peer); after
//! that it is scheduled only once nothing else can run (the simulated clock jumps to the deadline).
//!
//! Model: FIFO queue with the capacity the caller passes; `send` blocks while the queue is full and
//! the receiver is alive; a `Select` is ready when any registered receiver is non-empty or
//! disconnected, and *which* ready receiver wins is a scheduler decision (crossbeam picks one at
//! random in production).

use std::collections::VecDeque;
use std::fmt;
use std::sync::{Arc, Mutex};
use std::time::Duration;

use crate::sched::{sched_point, yield_after, lock, Op, ChanMeta};

struct Inner<T> {
    id: usize,
    q: Mutex<VecDeque<T>>,
}

pub struct Sender<T> {
    inner: Arc<Inner<T>>,
}

pub struct Receiver<T> {
    inner: Arc<Inner<T>>,
}

#[derive(PartialEq, Eq, Clone, Copy)]
pub struct SendError<T>(pub T);

impl<T> fmt::Debug for SendError<T> {
    fn fmt(&self, f: &mut fmt::Formatter<'_>) -> fmt::Result {
        "SendError(..)".fmt(f)
    }
}

impl<T> fmt::Display for SendError<T> {
    fn fmt(&self, f: &mut fmt::Formatter<'_>) -> fmt::Result {
        "sending on a disconnected channel".fmt(f)
    }
}

#[derive(PartialEq, Eq, Clone, Copy, Debug)]
pub struct RecvError;

impl fmt::Display for RecvError {
    fn fmt(&self, f: &mut fmt::Formatter<'_>) -> fmt::Result {
        "receiving on an empty and disconnected channel".fmt(f)
    }
}

impl std::error::Error for RecvError {}

#[derive(PartialEq, Eq, Clone, Copy, Debug)]
pub enum TryRecvError {
    Empty,
    Disconnected,
}

#[derive(PartialEq, Eq, Clone, Copy, Debug)]
pub enum RecvTimeoutError {
    Timeout,
    Disconnected,
}

#[derive(PartialEq, Eq, Clone, Copy)]
pub enum TrySendError<T> {
    Full(T),
    Disconnected(T),
}

#[derive(PartialEq, Eq, Clone, Copy)]
pub enum SendTimeoutError<T> {
    Timeout(T),
    Disconnected(T),
}

#[derive(PartialEq, Eq, Clone, Copy, Debug)]
pub struct SelectTimeoutError;

#[derive(PartialEq, Eq, Clone, Copy, Debug)]
pub struct TrySelectError;

macro_rules! plain_error {
    ($t:ty, $msg:expr) => {
        impl fmt::Display for $t {
            fn fmt(&self, f: &mut fmt::Formatter<'_>) -> fmt::Result {
                $msg.fmt(f)
            }
        }
        impl std::error::Error for $t {}
    };
}
plain_error!(TryRecvError, "receiving on an empty or disconnected channel");
plain_error!(RecvTimeoutError, "timed out waiting on receive operation or channel disconnected");
plain_error!(SelectTimeoutError, "timed out waiting on select");
plain_error!(TrySelectError, "all operations in select would block");

impl<T> fmt::Debug for TrySendError<T> {
    fn fmt(&self, f: &mut fmt::Formatter<'_>) -> fmt::Result {
        match self {
            TrySendError::Full(..) => "Full(..)".fmt(f),
            TrySendError::Disconnected(..) => "Disconnected(..)".fmt(f),
        }
    }
}

impl<T> fmt::Display for TrySendError<T> {
    fn fmt(&self, f: &mut fmt::Formatter<'_>) -> fmt::Result {
        match self {
            TrySendError::Full(..) => "sending on a full channel".fmt(f),
            TrySendError::Disconnected(..) => "sending on a disconnected channel".fmt(f),
        }
    }
}

impl<T> fmt::Debug for SendTimeoutError<T> {
    fn fmt(&self, f: &mut fmt::Formatter<'_>) -> fmt::Result {
        "SendTimeoutError(..)".fmt(f)
    }
}

impl<T> fmt::Display for SendTimeoutError<T> {
    fn fmt(&self, f: &mut fmt::Formatter<'_>) -> fmt::Result {
        match self {
            SendTimeoutError::Timeout(..) => "timed out waiting on send operation".fmt(f),
            SendTimeoutError::Disconnected(..) => "sending on a disconnected channel".fmt(f),
        }
    }
}

impl<T> TrySendError<T> {
    pub fn into_inner(self) -> T {
        match self {
            TrySendError::Full(v) | TrySendError::Disconnected(v) => v,
        }
    }
    pub fn is_full(&self) -> bool {
        matches!(self, TrySendError::Full(_))
    }
    pub fn is_disconnected(&self) -> bool {
        matches!(self, TrySendError::Disconnected(_))
    }
}

impl<T> SendError<T> {
    pub fn into_inner(self) -> T {
        self.0
    }
}

/// as crossbeam: a channel of unlimited capacity (`send` never blocks)
pub fn unbounded<T>() -> (Sender<T>, Receiver<T>) {
    bounded_with(usize::MAX, 0)
}

pub fn bounded<T>(cap: usize) -> (Sender<T>, Receiver<T>) {
    bounded_with(cap, cap)
}

fn bounded_with<T>(cap: usize, prealloc: usize) -> (Sender<T>, Receiver<T>) {
    let id = {
        let mut g = lock();
        let s = g.as_mut().expect("s4_verif_rt::init() not called");
        s.chans.push(ChanMeta { len: 0, cap, senders: 1, rx_alive: true });
        let id = s.chans.len() - 1;
        let line = format!("C {} chan={} cap={}", s.steps, id, cap);
        s.tr(&line);
        id
    };
    let inner = Arc::new(Inner { id, q: Mutex::new(VecDeque::with_capacity(prealloc)) });
    (Sender { inner: inner.clone() }, Receiver { inner })
}

impl<T> Sender<T> {
    pub fn send(&self, msg: T) -> Result<(), SendError<T>> {
        let id = self.inner.id;
        let r = sched_point(Op::Send(id), |s| {
            if !s.chans[id].rx_alive {
                return Err(SendError(msg));
            }
            self.inner.q.lock().unwrap().push_back(msg);
            s.chans[id].len += 1;
            Ok(())
        });
        yield_after("sent");
        r
    }
}

impl<T> Sender<T> {
    fn timed_send(&self, msg: T) -> Result<(), TrySendError<T>> {
        let id = self.inner.id;
        let r = sched_point(Op::TimedSend(id), |s| {
            if !s.chans[id].rx_alive {
                return Err(TrySendError::Disconnected(msg));
            }
            if s.chans[id].len >= s.chans[id].cap {
                s.timeout_fires(&format!("tsend:{}", id));
                return Err(TrySendError::Full(msg));
            }
            self.inner.q.lock().unwrap().push_back(msg);
            s.chans[id].len += 1;
            Ok(())
        });
        yield_after("sent");
        r
    }

    pub fn try_send(&self, msg: T) -> Result<(), TrySendError<T>> {
        self.timed_send(msg)
    }

    pub fn send_timeout(&self, msg: T, _timeout: Duration) -> Result<(), SendTimeoutError<T>> {
        match self.timed_send(msg) {
            Ok(()) => Ok(()),
            Err(TrySendError::Full(m)) => Err(SendTimeoutError::Timeout(m)),
            Err(TrySendError::Disconnected(m)) => Err(SendTimeoutError::Disconnected(m)),
        }
    }

    pub fn len(&self) -> usize {
        self.inner.q.lock().unwrap().len()
    }
    pub fn is_empty(&self) -> bool {
        self.len() == 0
    }
    pub fn capacity(&self) -> Option<usize> {
        let g = lock();
        let cap = g.as_ref().map(|s| s.chans[self.inner.id].cap).unwrap_or(usize::MAX);
        if cap == usize::MAX {
            None
        } else {
            Some(cap)
        }
    }
    pub fn is_full(&self) -> bool {
        match self.capacity() {
            Some(c) => self.len() >= c,
            None => false,
        }
    }
}

impl<T> Clone for Sender<T> {
    fn clone(&self) -> Self {
        let mut g = lock();
        if let Some(s) = g.as_mut() {
            s.chans[self.inner.id].senders += 1;
        }
        Sender { inner: self.inner.clone() }
    }
}

impl<T> Drop for Sender<T> {
    fn drop(&mut self) {
        let mut g = lock();
        if let Some(s) = g.as_mut() {
            let m = &mut s.chans[self.inner.id];
            m.senders = m.senders.saturating_sub(1);
            if m.senders == 0 {
                let line = format!("C {} chan={} senders_gone", s.steps, self.inner.id);
                s.tr(&line);
            }
        }
    }
}

impl<T> fmt::Debug for Sender<T> {
    fn fmt(&self, f: &mut fmt::Formatter<'_>) -> fmt::Result {
        write!(f, "Sender {{ chan: {} }}", self.inner.id)
    }
}

impl<T> Receiver<T> {
    pub fn len(&self) -> usize {
        self.inner.q.lock().unwrap().len()
    }
    pub fn is_empty(&self) -> bool {
        self.len() == 0
    }

    /// blocking receive: a select over this one channel
    pub fn recv(&self) -> Result<T, RecvError> {
        let mut sel = Select::new();
        sel.recv(self);
        sel.select().recv(self)
    }

    pub fn recv_timeout(&self, timeout: Duration) -> Result<T, RecvTimeoutError> {
        let mut sel = Select::new();
        sel.recv(self);
        match sel.select_timeout(timeout) {
            Ok(op) => op.recv(self).map_err(|_| RecvTimeoutError::Disconnected),
            Err(_) => Err(RecvTimeoutError::Timeout),
        }
    }

    pub fn try_recv(&self) -> Result<T, TryRecvError> {
        let mut sel = Select::new();
        sel.recv(self);
        match sel.try_select() {
            Ok(op) => op.recv(self).map_err(|_| TryRecvError::Disconnected),
            Err(_) => Err(TryRecvError::Empty),
        }
    }

    pub fn iter(&self) -> Iter<'_, T> {
        Iter { r: self }
    }

    pub fn try_iter(&self) -> TryIter<'_, T> {
        TryIter { r: self }
    }
}

pub struct Iter<'a, T> {
    r: &'a Receiver<T>,
}

impl<T> Iterator for Iter<'_, T> {
    type Item = T;
    fn next(&mut self) -> Option<T> {
        self.r.recv().ok()
    }
}

pub struct TryIter<'a, T> {
    r: &'a Receiver<T>,
}

impl<T> Iterator for TryIter<'_, T> {
    type Item = T;
    fn next(&mut self) -> Option<T> {
        self.r.try_recv().ok()
    }
}

impl<T> Drop for Receiver<T> {
    fn drop(&mut self) {
        // as crossbeam does: disconnect, then discard what is still queued
        let drained: Vec<T> = {
            let mut g = lock();
            if let Some(s) = g.as_mut() {
                let m = &mut s.chans[self.inner.id];
                m.rx_alive = false;
                m.len = 0;
                let line = format!("C {} chan={} receiver_gone", s.steps, self.inner.id);
                s.tr(&line);
            }
            self.inner.q.lock().unwrap().drain(..).collect()
        };
        // drop the messages outside the scheduler lock (their destructors may be arbitrary)
        drop(drained);
    }
}

impl<T> fmt::Debug for Receiver<T> {
    fn fmt(&self, f: &mut fmt::Formatter<'_>) -> fmt::Result {
        write!(f, "Receiver {{ chan: {} }}", self.inner.id)
    }
}

/// The subset of `crossbeam_channel::Select` s4 uses. Only channel ids are kept, so no borrow
/// of the receivers is held (crossbeam's `Select<'a>` borrows them; s4 names the type without a
/// lifetime, which is accepted for both).
pub struct Select {
    chans: Vec<usize>,
}

pub struct SelectedOperation {
    index: usize,
    chan: usize,
}

impl Select {
    #[allow(clippy::new_without_default)]
    pub fn new() -> Select {
        Select { chans: Vec::new() }
    }

    pub fn recv<T>(&mut self, r: &Receiver<T>) -> usize {
        self.chans.push(r.inner.id);
        self.chans.len() - 1
    }

    pub fn select(&mut self) -> SelectedOperation {
        if self.chans.is_empty() {
            panic!("no operations have been added to `Select`");
        }
        let chans = self.chans.clone();
        sched_point(Op::Select(chans.clone()), |s| {
            let ready: Vec<usize> = (0..chans.len())
                .filter(|i| {
                    let m = &s.chans[chans[*i]];
                    m.len > 0 || m.senders == 0
                })
                .collect();
            let k = s.pick_select(ready.len());
            let index = ready[k];
            if ready.len() > 1 {
                let line = format!("K {} pick={}/{} chan={}", s.steps, k, ready.len(), chans[index]);
                s.tr(&line);
            }
            SelectedOperation { index, chan: chans[index] }
        })
    }
}

impl Select {
    fn timed(&mut self) -> Option<SelectedOperation> {
        if self.chans.is_empty() {
            panic!("no operations have been added to `Select`");
        }
        let chans = self.chans.clone();
        sched_point(Op::TimedSelect(chans.clone()), |s| {
            let ready: Vec<usize> = (0..chans.len())
                .filter(|i| {
                    let m = &s.chans[chans[*i]];
                    m.len > 0 || m.senders == 0
                })
                .collect();
            if ready.is_empty() {
                let v: Vec<String> = chans.iter().map(|c| c.to_string()).collect();
                s.timeout_fires(&format!("tselect:{}", v.join("+")));
                return None;
            }
            let k = s.pick_select(ready.len());
            let index = ready[k];
            if ready.len() > 1 {
                let line = format!("K {} pick={}/{} chan={}", s.steps, k, ready.len(), chans[index]);
                s.tr(&line);
            }
            Some(SelectedOperation { index, chan: chans[index] })
        })
    }

    pub fn select_timeout(&mut self, _timeout: Duration) -> Result<SelectedOperation, SelectTimeoutError> {
        self.timed().ok_or(SelectTimeoutError)
    }

    pub fn try_select(&mut self) -> Result<SelectedOperation, TrySelectError> {
        self.timed().ok_or(TrySelectError)
    }
}

impl SelectedOperation {
    pub fn index(&self) -> usize {
        self.index
    }

    pub fn recv<T>(self, r: &Receiver<T>) -> Result<T, RecvError> {
        assert_eq!(
            r.inner.id, self.chan,
            "passed a receiver that wasn't selected"
        );
        let id = self.chan;
        let res = {
            let mut g = lock();
            let s = g.as_mut().unwrap();
            let v = r.inner.q.lock().unwrap().pop_front();
            match v {
                Some(v) => {
                    s.chans[id].len -= 1;
                    Ok(v)
                }
                None => Err(RecvError),
            }
        };
        yield_after("recvd");
        res
    }
}
