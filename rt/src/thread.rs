//! `std::thread` surface used by s4 (`Builder::{new, name, spawn}`, `current`, `Thread`,
//! `ThreadId`, `JoinHandle::join`): a spawned thread is a real OS thread registered with the
//! scheduler; it runs only while it holds the baton.

use std::io;

pub use std::thread::{current, Thread, ThreadId};

use crate::sched::{lock, sched_point, thread_begin, thread_finished, yield_after, Op, TState};

pub struct Builder {
    inner: std::thread::Builder,
    name: Option<String>,
}

pub struct JoinHandle<T> {
    tid: usize,
    inner: std::thread::JoinHandle<T>,
}

impl Builder {
    #[allow(clippy::new_without_default)]
    pub fn new() -> Builder {
        Builder { inner: std::thread::Builder::new(), name: None }
    }

    pub fn name(mut self, name: String) -> Builder {
        self.name = Some(name.clone());
        self.inner = self.inner.name(name);
        self
    }

    pub fn stack_size(mut self, size: usize) -> Builder {
        self.inner = self.inner.stack_size(size);
        self
    }

    pub fn spawn<F, T>(self, f: F) -> io::Result<JoinHandle<T>>
    where
        F: FnOnce() -> T + Send + 'static,
        T: Send + 'static,
    {
        let tid = {
            let mut g = lock();
            let s = g.as_mut().expect("s4_verif_rt::init() not called");
            let tid = s.new_thread();
            let line = format!(
                "N {} T{} name={:?}",
                s.steps,
                tid,
                self.name.as_deref().unwrap_or("")
            );
            s.tr(&line);
            tid
        };
        let r = self.inner.spawn(move || {
            thread_begin(tid);
            let v = f();
            thread_finished();
            v
        });
        match r {
            Ok(h) => {
                yield_after("spawned");
                Ok(JoinHandle { tid, inner: h })
            }
            Err(e) => {
                let mut g = lock();
                if let Some(s) = g.as_mut() {
                    s.threads[tid].state = TState::Finished;
                }
                Err(e)
            }
        }
    }
}

pub fn spawn<F, T>(f: F) -> JoinHandle<T>
where
    F: FnOnce() -> T + Send + 'static,
    T: Send + 'static,
{
    Builder::new().spawn(f).expect("failed to spawn thread")
}

impl<T> JoinHandle<T> {
    pub fn join(self) -> std::thread::Result<T> {
        let tid = self.tid;
        sched_point(Op::Join(tid), |_| ());
        // the target has finished its closure; the OS thread is about to exit
        self.inner.join()
    }

    pub fn thread(&self) -> &Thread {
        self.inner.thread()
    }

    pub fn is_finished(&self) -> bool {
        let g = lock();
        match g.as_ref() {
            Some(s) => matches!(s.threads[self.tid].state, TState::Finished),
            None => self.inner.is_finished(),
        }
    }
}
