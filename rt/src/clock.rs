//! Simulated program-start instant (H3). `None` = no plan or no `now=` line: the real clock is used.
//!
//! The simulated clock does not tick on its own (s4 has no timers), with one exception: `stdin_delay=<s>` in the plan
//! models a path list on standard input that takes that many seconds to arrive. An instant asked for after standard
//! input has been read (its file position is past zero; the driver hands standard input over as a regular file) lies
//! that much later. "Program start" read at program start is unaffected; read lazily after the list, it is late.

use crate::sched::lock;

extern "C" {
    fn lseek(fd: i32, offset: i64, whence: i32) -> i64;
}

/// (seconds since the epoch, nanoseconds)
pub fn utc_now() -> Option<(i64, u32)> {
    let g = lock();
    match g.as_ref() {
        Some(s) => match (s.plan.now, s.plan.stdin_delay) {
            (Some((sec, ns)), Some(d)) if d > 0 => {
                let pos = unsafe { lseek(0, 0, 1) };
                if pos > 0 {
                    Some((sec + d, ns))
                } else {
                    Some((sec, ns))
                }
            }
            (now, _) => now,
        },
        None => None,
    }
}
