//! Simulated program-start instant (H3). `None` = no plan or no `now=` line: the real clock is used.

use crate::sched::lock;

/// (seconds since the epoch, nanoseconds)
pub fn utc_now() -> Option<(i64, u32)> {
    let g = lock();
    match g.as_ref() {
        Some(s) => s.plan.now,
        None => None,
    }
}
