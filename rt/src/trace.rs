//! Trace-only hooks (H5, H7): they record what the coordinator decided; they are not scheduling
//! points, draw no random numbers and read no clock.

use crate::sched::lock;

fn emit(f: impl FnOnce(u64) -> String) {
    let mut g = lock();
    if let Some(s) = g.as_mut() {
        let line = f(s.steps);
        s.tr(&line);
    }
}

/// coordinator received something from `pathid`: kind = info | msg | summary | disconnect
pub fn recv(pathid: usize, kind: &str, dt_ns: i64, is_last: bool) {
    emit(|st| format!("R {} recv pathid={} kind={} dt={} last={}", st, pathid, kind, dt_ns, is_last as u8));
}

/// coordinator is about to print the pending message of `pathid`
pub fn print(pathid: usize, dt_ns: i64, is_last: bool, pending: &[(usize, i64)], info_outstanding: bool) {
    emit(|st| {
        let p: Vec<String> = pending.iter().map(|(p, d)| format!("{}:{}", p, d)).collect();
        format!(
            "P {} print pathid={} dt={} last={} pending=[{}] info_outstanding={}",
            st,
            pathid,
            dt_ns,
            is_last as u8,
            p.join(","),
            info_outstanding as u8
        )
    });
}

pub fn disconnect(pathid: usize) {
    emit(|st| format!("D {} disconnect pathid={}", st, pathid));
}

pub fn loop_exit(pending: usize, live: usize) {
    emit(|st| format!("Q {} loop_exit pending={} live={}", st, pending, live));
}

/// temp-file life cycle (H7): kind = create | register | chunk | done | fail
pub fn ntf(kind: &str, path: &str) {
    emit(|st| {
        let base = path.rsplit('/').next().unwrap_or(path);
        let tid = crate::sched::TID.with(|t| t.get());
        format!("T {} ntf {} file={} tid={}", st, kind, base, tid as isize)
    });
}

pub fn note(text: &str) {
    emit(|st| format!("# {} {}", st, text));
}
