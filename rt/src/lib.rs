//! s4_verif_rt -- deterministic-simulation runtime for `s4`.
//!
//! Linked into `s4` only under `--cfg s4_verif` (through /verif/shadow/Cargo.toml).
//! All s4 threads are real OS threads, but exactly one of them holds the *baton* at any time.
//! At every intercepted operation (a *scheduling point*) the thread publishes the operation it
//! wants to perform and a seeded scheduler decides which thread proceeds.
//!
//! std only. No real clock is read, and no PRNG draw happens, in any tracing path.

pub mod chan;
pub mod clock;
pub mod ctrlc;
pub mod sched;
pub mod sync;
pub mod thread;
pub mod trace;

pub use sched::{init, io_point, point, process_exit};
