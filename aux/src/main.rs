//! s4aux evtxdump <file>
//! Independent dump of a Windows .evtx file with the `evtx` crate: one line per record in file
//! enumeration order: "<enumeration index>\t<EventRecordID>\t<creation time as ns since the epoch>".
//! The simulation driver derives the expected print order (creation time, ties by enumeration
//! index) and the window selection from this, without any s4 code.
use std::env;
use std::process::exit;

use evtx::{EvtxParser, ParserSettings};

fn main() {
    let args: Vec<String> = env::args().collect();
    if args.len() != 3 || args[1] != "evtxdump" {
        eprintln!("usage: s4aux evtxdump <file>");
        exit(2);
    }
    let settings = ParserSettings::default().num_threads(1);
    let mut parser = match EvtxParser::from_path(&args[2]) {
        Ok(p) => p.with_configuration(settings),
        Err(e) => {
            eprintln!("cannot open {}: {}", args[2], e);
            exit(2);
        }
    };
    for (index, r) in parser.records().enumerate() {
        match r {
            Ok(rec) => {
                let ns = rec.timestamp.timestamp_nanos_opt().unwrap_or(i64::MIN);
                println!("{}\t{}\t{}", index, rec.event_record_id, ns);
            }
            Err(e) => {
                println!("{}\tERR\t{}", index, e.to_string().replace('\n', " "));
            }
        }
    }
}
