#!/bin/bash
# usage: tools_try_seed.sh <patch.diff> <property-id>...   apply a seeded change to /repo, run the named quick checks, undo it
P=$1; shift
cd /repo || exit 2
if [ -n "$(git status --porcelain --untracked-files=no)" ]; then echo "/repo has uncommitted changes; refusing"; exit 2; fi
git apply "$P" || { echo "patch does not apply"; exit 2; }
cd /verif
for id in "$@"; do
  echo "=== $id with $(basename $(dirname $P)) applied"
  S4SIM_NO_EVIDENCE=1 ./check $id quick 2>&1 | grep -E "^VIOLATION|^ +class=|^C[0-9]+ |HARNESS|KNOWN" | cut -c1-300 | head -12
  echo "exit=${PIPESTATUS[0]}"
done
git -C /repo checkout -- .
rm -f /verif/replays/*.json
