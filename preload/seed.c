/* LD_PRELOAD shim: makes the OS randomness behind Rust's std::collections::hash_map::RandomState
 * (and anything else that calls getrandom(2) through libc) a pure function of S4SIM_HASHSEED, so
 * the iteration order of s4's HashMaps/HashSets is part of the simulated plan and replays exactly.
 * Without S4SIM_HASHSEED in the environment the real system call is made. */
#define _GNU_SOURCE
#include <stdint.h>
#include <stdlib.h>
#include <string.h>
#include <sys/syscall.h>
#include <sys/types.h>
#include <unistd.h>

static uint64_t counter;

ssize_t getrandom(void *buf, size_t len, unsigned int flags) {
    const char *e = getenv("S4SIM_HASHSEED");
    if (!e) return syscall(SYS_getrandom, buf, len, flags);
    uint64_t seed = strtoull(e, 0, 10);
    unsigned char *p = buf;
    for (size_t i = 0; i < len; i += 8) {
        uint64_t z = seed + 0x9E3779B97F4A7C15ULL * (__atomic_add_fetch(&counter, 1, __ATOMIC_SEQ_CST));
        z = (z ^ (z >> 30)) * 0xBF58476D1CE4E5B9ULL;
        z = (z ^ (z >> 27)) * 0x94D049BB133111EBULL;
        z ^= z >> 31;
        size_t n = len - i < 8 ? len - i : 8;
        memcpy(p + i, &z, n);
    }
    return (ssize_t)len;
}


/* ---- I/O fault injection (all off unless S4SIM_IOFAULT is set) -----------------------------------
 * S4SIM_IOFAULT = "key=value;key=value;..." with
 *   sw=<seed>        short writes on stdout, stderr and files under $TMPDIR: a write of n>1 bytes is cut to 1..n-1 bytes in 3 of 4 calls
 *                    (a pure function of seed and the call number)
 *   epipe=<N>        stdout accepts N bytes in total, then every write fails with EPIPE (the reader went away)
 *   enospc=<N>       files under $TMPDIR accept N bytes in total, then every write fails with ENOSPC (disk full)
 *   sr=<seed>        short reads of regular files under the working directory (inputs, extracted copies)
 *   eio=<N>          regular files under the working directory (the inputs and the extracted temporary copies; not
 *                    the simulator's own .sim/ files) deliver N bytes in total, then every read fails with EIO
 * Counting is per process; with the baton scheduler one thread runs at a time, so the byte at which a
 * fault lands is a function of the plan. Writes to other descriptors are passed through untouched. */
#include <errno.h>
#include <stdio.h>
#include <sys/uio.h>

static int io_init_done;
static long long io_sw_seed = -1, io_epipe = -1, io_enospc = -1, io_eio = -1, io_sr_seed = -1;
static unsigned long long io_sr_calls;
static unsigned long long io_read_bytes;
static char io_cwd[512];
static unsigned long long io_sw_calls, io_out_bytes, io_tmp_bytes;
static char io_tmpdir[512];

static void io_init(void) {
    if (io_init_done) return;
    const char *e = getenv("S4SIM_IOFAULT");
    if (e) {
        const char *p;
        if ((p = strstr(e, "sw="))) io_sw_seed = strtoll(p + 3, 0, 10);
        if ((p = strstr(e, "epipe="))) io_epipe = strtoll(p + 6, 0, 10);
        if ((p = strstr(e, "enospc="))) io_enospc = strtoll(p + 7, 0, 10);
        if ((p = strstr(e, "eio="))) io_eio = strtoll(p + 4, 0, 10);
        if ((p = strstr(e, "sr="))) io_sr_seed = strtoll(p + 3, 0, 10);
        if (!getcwd(io_cwd, sizeof io_cwd - 1)) io_cwd[0] = 0;
        const char *t = getenv("TMPDIR");
        if (t) { strncpy(io_tmpdir, t, sizeof io_tmpdir - 1); }
    }
    io_init_done = 1;
}

static int io_is_tmp(int fd) {
    char link[64], path[600];
    if (!io_tmpdir[0]) return 0;
    snprintf(link, sizeof link, "/proc/self/fd/%d", fd);
    ssize_t r = readlink(link, path, sizeof path - 1);
    if (r <= 0) return 0;
    path[r] = 0;
    size_t n = strlen(io_tmpdir);
    return strncmp(path, io_tmpdir, n) == 0 && path[n] == '/';
}

static uint64_t io_mix(uint64_t z) {
    z = (z ^ (z >> 30)) * 0xBF58476D1CE4E5B9ULL;
    z = (z ^ (z >> 27)) * 0x94D049BB133111EBULL;
    return z ^ (z >> 31);
}

ssize_t write(int fd, const void *buf, size_t n) {
    io_init();
    if (fd == 2 && io_sw_seed >= 0 && n > 1) {
        /* stderr (the summary, error messages): short writes only */
        uint64_t r = io_mix((uint64_t)io_sw_seed + 0x9E3779B97F4A7C15ULL * (++io_sw_calls));
        if ((r & 3) != 0) n = 1 + (size_t)((r >> 8) % (n - 1));
        return syscall(SYS_write, fd, buf, n);
    }
    if (fd == 1 && (io_sw_seed >= 0 || io_epipe >= 0)) {
        if (io_epipe >= 0) {
            if (io_out_bytes >= (unsigned long long)io_epipe && n > 0) { errno = EPIPE; return -1; }
            if (n > (unsigned long long)io_epipe - io_out_bytes) n = (size_t)((unsigned long long)io_epipe - io_out_bytes);
        }
        if (io_sw_seed >= 0 && n > 1) {
            uint64_t r = io_mix((uint64_t)io_sw_seed + 0x9E3779B97F4A7C15ULL * (++io_sw_calls));
            if ((r & 3) != 0) n = 1 + (size_t)((r >> 8) % (n - 1));
        }
        ssize_t w = syscall(SYS_write, fd, buf, n);
        if (w > 0) io_out_bytes += (unsigned long long)w;
        return w;
    }
    if (fd > 2 && io_sw_seed >= 0 && io_enospc < 0 && n > 1 && io_is_tmp(fd)) {
        /* the extracted temporary copies: short writes only */
        uint64_t r = io_mix((uint64_t)io_sw_seed + 0x9E3779B97F4A7C15ULL * (++io_sw_calls));
        if ((r & 3) != 0) n = 1 + (size_t)((r >> 8) % (n - 1));
        return syscall(SYS_write, fd, buf, n);
    }
    if (fd > 2 && io_enospc >= 0 && io_is_tmp(fd)) {
        if (io_tmp_bytes >= (unsigned long long)io_enospc && n > 0) { errno = ENOSPC; return -1; }
        if (n > (unsigned long long)io_enospc - io_tmp_bytes) n = (size_t)((unsigned long long)io_enospc - io_tmp_bytes);
        ssize_t w = syscall(SYS_write, fd, buf, n);
        if (w > 0) io_tmp_bytes += (unsigned long long)w;
        return w;
    }
    return syscall(SYS_write, fd, buf, n);
}

ssize_t writev(int fd, const struct iovec *iov, int cnt) {
    io_init();
    if ((fd == 1 && (io_sw_seed >= 0 || io_epipe >= 0)) || (fd == 2 && io_sw_seed >= 0) || (fd > 2 && (io_enospc >= 0 || io_sw_seed >= 0) && io_is_tmp(fd))) {
        /* a vectored write is allowed to transfer only part of its buffers: hand over the first non-empty one */
        for (int i = 0; i < cnt; i++)
            if (iov[i].iov_len) return write(fd, iov[i].iov_base, iov[i].iov_len);
        return 0;
    }
    return syscall(SYS_writev, fd, iov, cnt);
}


static int io_is_input(int fd) {
    char link[64], path[600];
    if (!io_cwd[0]) return 0;
    snprintf(link, sizeof link, "/proc/self/fd/%d", fd);
    ssize_t r = readlink(link, path, sizeof path - 1);
    if (r <= 0) return 0;
    path[r] = 0;
    size_t n = strlen(io_cwd);
    if (strncmp(path, io_cwd, n) != 0 || path[n] != '/') return 0;
    return strncmp(path + n, "/.sim/", 6) != 0;
}

ssize_t read(int fd, void *buf, size_t n) {
    io_init();
    if (fd > 2 && io_eio >= 0 && n > 0 && io_is_input(fd)) {
        if (io_read_bytes >= (unsigned long long)io_eio) { errno = EIO; return -1; }
        if (n > (unsigned long long)io_eio - io_read_bytes) n = (size_t)((unsigned long long)io_eio - io_read_bytes);
        ssize_t r = syscall(SYS_read, fd, buf, n);
        if (r > 0) io_read_bytes += (unsigned long long)r;
        return r;
    }
    if (fd > 2 && io_sr_seed >= 0 && n > 1 && io_is_input(fd)) {
        /* short reads: 1..n-1 bytes in 3 of 4 calls (legal for read(2); a reader must use the count it gets) */
        uint64_t r = io_mix((uint64_t)io_sr_seed + 0x9E3779B97F4A7C15ULL * (++io_sr_calls));
        if ((r & 3) != 0) n = 1 + (size_t)((r >> 8) % (n - 1));
    }
    return syscall(SYS_read, fd, buf, n);
}


/* ---- SIGINT disposition seam ---------------------------------------------------------------------------------------
 * In the simulation SIGINT never arrives as a real signal: s4_verif_rt runs the registered handler closure from a
 * simulated thread at the planned step. What the program does to the signal's *disposition* would therefore go unseen
 * (a handler that restores SIG_DFL so that "a second Ctrl-C is not kept waiting" makes the second one kill the process
 * with nothing cleaned up). sigaction()/signal() for SIGINT are recorded here instead of being applied, and the runtime
 * asks s4sim_sigint_disposition() before it delivers: 0 = whatever the ctrlc stand-in installed, 1 = default, 2 = ignored.
 */
#include <signal.h>
#ifndef _GNU_SOURCE
#define _GNU_SOURCE
#endif
#include <dlfcn.h>

static volatile int sigint_disposition;

int s4sim_sigint_disposition(void) { return sigint_disposition; }

static void note_sigint(void (*h)(int)) {
    sigint_disposition = (h == SIG_DFL) ? 1 : (h == SIG_IGN) ? 2 : 0;
}

int sigaction(int sig, const struct sigaction *act, struct sigaction *old) {
    if (sig == SIGINT) {
        if (old) memset(old, 0, sizeof *old);
        if (act) note_sigint((act->sa_flags & SA_SIGINFO) ? (void (*)(int))1 : act->sa_handler);
        return 0;
    }
    static int (*real)(int, const struct sigaction *, struct sigaction *);
    if (!real) real = (int (*)(int, const struct sigaction *, struct sigaction *))dlsym(RTLD_NEXT, "sigaction");
    return real ? real(sig, act, old) : -1;
}

void (*signal(int sig, void (*h)(int)))(int) {
    if (sig == SIGINT) {
        note_sigint(h);
        return SIG_DFL;
    }
    struct sigaction a, o;
    memset(&a, 0, sizeof a);
    a.sa_handler = h;
    a.sa_flags = SA_RESTART;
    sigemptyset(&a.sa_mask);
    if (sigaction(sig, &a, &o) != 0) return SIG_ERR;
    return o.sa_handler;
}
