/* LD_PRELOAD shim: makes the OS randomness behind Rust's std::collections::hash_map::RandomState
 * (and anything else that calls getrandom(2) through libc) a pure function of S4SIM_HASHSEED, so
 * the iteration order of s4's HashMaps/HashSets is part of the simulated plan and replays exactly.
 * Without S4SIM_HASHSEED in the environment the real system call is made. */
#define _GNU_SOURCE
#include <stdint.h>
#include <stdlib.h>
#include <string.h>
#include <sys/syscall.h>
#include <sys/types.h>
#include <unistd.h>

static uint64_t counter;

ssize_t getrandom(void *buf, size_t len, unsigned int flags) {
    const char *e = getenv("S4SIM_HASHSEED");
    if (!e) return syscall(SYS_getrandom, buf, len, flags);
    uint64_t seed = strtoull(e, 0, 10);
    unsigned char *p = buf;
    for (size_t i = 0; i < len; i += 8) {
        uint64_t z = seed + 0x9E3779B97F4A7C15ULL * (__atomic_add_fetch(&counter, 1, __ATOMIC_SEQ_CST));
        z = (z ^ (z >> 30)) * 0xBF58476D1CE4E5B9ULL;
        z = (z ^ (z >> 27)) * 0x94D049BB133111EBULL;
        z ^= z >> 31;
        size_t n = len - i < 8 ? len - i : 8;
        memcpy(p + i, &z, n);
    }
    return (ssize_t)len;
}
